import SpecVerif.Proofs.C18
/-!
# C18 — Alias mirrors its target until overridden; passthrough writes reach the target

Property theorems only (helper lemmas are in `Proofs/C18.lean`). Every theorem is
about the executable definitions of `Model/C18.lean`, which the correspondence
check runs against `spec_classes.types.alias.Alias` / `DeprecatedAlias` on plain
and on spec classes.

Quantification: any configuration `c : Cfg` (any path, passthrough flag, any
transform *function* including raising ones, any fallback, deprecated or not,
type-checked or not, plain or spec host), any host tree, any override, any
operation, any operation sequence of any length (induction over `run`).
-/
set_option linter.unusedSectionVars false
set_option linter.unusedSimpArgs false
set_option linter.unusedVariables false
namespace SpecVerif.Props.C18
open SpecVerif.Py SpecVerif.C18

/-! ## Specification side: what the property text says -/

/-- The live view of the target: its current value under the optional
transform; a *missing* target (`AttributeError` or `KeyError` anywhere on the path)
gives the fallback copy, or `AttributeError` when there is no fallback. -/
def liveView (c : Cfg) (host : Val) : GetRes :=
  match lookup host c.path with
  | .ok v =>
    match c.transform with
    | none => .val v
    | some f =>
      match f v with
      | .ok w => .val w
      | .error .attributeError => fallbackOr c
      | .error e => .err e
  | .error .attributeError => fallbackOr c
  | .error .keyError => fallbackOr c
  | .error e => .err e

/-- the instance has no local value that a read would see -/
def NoLocal (c : Cfg) (s : Inst) : Prop := c.passthrough = true ∨ s.override = none

/-! ## mirrors -/

/-- An alias that has not been assigned locally reads as the live view of its target. -/
theorem mirrors (c : Cfg) (s : Inst) (h : NoLocal c s) : aliasGet c s = liveView c s.host := by
  have hov : (if c.passthrough then none else s.override) = none := by
    rcases h with h | h <;> simp [h]
  unfold aliasGet liveView lookupConv
  rw [hov]
  cases hl : lookup s.host c.path with
  | ok v => rfl
  | error e => cases e <;> simp [conv]

/-- … without transform: the very value of the target. -/
theorem mirrors_plain (c : Cfg) (s : Inst) (h : NoLocal c s) {v : Val}
    (ht : c.transform = none) (hl : lookup s.host c.path = .ok v) : aliasGet c s = .val v := by
  rw [mirrors c s h]; simp [liveView, hl, ht]

/-- … with a transform: the transformed value of the target. -/
theorem mirrors_transformed (c : Cfg) (s : Inst) (h : NoLocal c s) {v w : Val} {f : Val → Except Err Val}
    (ht : c.transform = some f) (hl : lookup s.host c.path = .ok v) (hf : f v = .ok w) :
    aliasGet c s = .val w := by
  rw [mirrors c s h]; simp [liveView, hl, ht, hf]

example : aliasGet ⟨[.attr "sub", .item "k"], false, none, none, false, false, false⟩
    ⟨.obj [] [("sub", .dict [("k", .int 3)])], none⟩ = .val (.int 3) := rfl

/-! ## missing target: fallback copy or AttributeError -/

/-- A missing target without fallback raises `AttributeError` (also when the path
failed with `KeyError`). -/
theorem missing_raises (c : Cfg) (s : Inst) (h : NoLocal c s) (hm : Missing (lookup s.host c.path))
    (hf : c.fallback = none) : aliasGet c s = .err .attributeError := by
  rw [mirrors c s h]
  rcases hm with hm | hm <;> simp [liveView, hm, fallbackOr, hf]

/-- A missing target with a (mutable) fallback: every read hands out a *new*
copy — ids `n+1`, `n+2`, … — equal to the fallback, and changes nothing else. -/
theorem fallback_fresh (c : Cfg) (w : World) (h : NoLocal c w.cur) (hm : Missing (lookup w.cur.host c.path))
    {fb : Val} (hf : c.fallback = some fb) (hmut : fb.isAtomic = false) :
    step c w .readAlias = ({ w with fresh := w.fresh + 1 }, ⟨.fresh fb (w.fresh + 1), warnsOf c⟩)
    ∧ (step c (step c w .readAlias).1 .readAlias).2.res = .fresh fb (w.fresh + 2) := by
  have hg : ∀ w' : World, w'.cur = w.cur → aliasGet c w'.cur = .fresh fb := by
    intro w' hw
    rw [hw, mirrors c _ h]
    rcases hm with hm | hm <;> simp [liveView, hm, fallbackOr, hf, hmut]
  have h1 : step c w .readAlias = ({ w with fresh := w.fresh + 1 }, ⟨.fresh fb (w.fresh + 1), warnsOf c⟩) := by
    simp [step, hg w rfl]
  refine ⟨h1, ?_⟩
  rw [h1]
  simp [step, hg { w with fresh := w.fresh + 1 } rfl]

/-- An immutable fallback (int, str) is returned as it is (`protect_via_deepcopy`). -/
theorem fallback_atomic (c : Cfg) (s : Inst) (h : NoLocal c s) (hm : Missing (lookup s.host c.path))
    {fb : Val} (hf : c.fallback = some fb) (ha : fb.isAtomic = true) : aliasGet c s = .val fb := by
  rw [mirrors c s h]
  rcases hm with hm | hm <;> simp [liveView, hm, fallbackOr, hf, ha]

example : (step ⟨[.attr "x"], false, none, some (.lst [7, 8]), false, false, false⟩
    ⟨⟨.obj [] [], none⟩, [], 0⟩ .readAlias).2.res = .fresh (.lst [7, 8]) 1 := rfl

/-! ## local assignment shadows; deletion restores -/

/-- `instance.alias = v` on a non-passthrough alias (well-typed `v` when the
attribute is type-checked): the host is untouched, and the alias then reads `v`. -/
theorem shadow (c : Cfg) (s : Inst) (v : Val) (hp : c.passthrough = false)
    (ht : c.checked = true → v.isInt = true) :
    instSet c s v = (.ok ⟨s.host, some v⟩, warnsOf c) ∧ aliasGet c ⟨s.host, some v⟩ = .val v := by
  have hc : (c.checked && !v.isInt) = false := by
    cases hcc : c.checked <;> simp
    exact ht hcc
  constructor
  · simp [instSet, hc, aliasSet, hp]
  · simp [aliasGet, hp]

/-- an ill-typed value never reaches the descriptor of a type-checked alias: `TypeError`, nothing changes, no warning -/
theorem shadow_type_checked (c : Cfg) (s : Inst) (v : Val) (hc : c.checked = true) (hv : v.isInt = false) :
    instSet c s v = (.error .typeError, 0) := by simp [instSet, hc, hv]

/-- Deleting the local value restores the live view (host untouched); a second delete raises `AttributeError`. -/
theorem delete_restores (c : Cfg) (s : Inst) (v : Val) (hp : c.passthrough = false) (ho : s.override = some v) :
    aliasDelete c s = .ok ⟨s.host, none⟩
    ∧ aliasGet c ⟨s.host, none⟩ = liveView c s.host
    ∧ aliasDelete c ⟨s.host, none⟩ = .error .attributeError := by
  refine ⟨by simp [aliasDelete, hp, ho], mirrors c _ (Or.inr rfl), by simp [aliasDelete, hp]⟩

example : aliasDelete ⟨[.attr "x"], false, none, none, false, false, false⟩ ⟨.obj [] [("x", .int 1)], some (.int 5)⟩
    = .ok ⟨.obj [] [("x", .int 1)], none⟩ := rfl

/-! ## the two variables evolve independently (non-passthrough) / the override never appears (passthrough) -/

/-- evolution of the local override: a function of the override and the operation only -/
def ovStep (c : Cfg) (ov : Option Val) : Op → Option Val
  | .writeAlias v => if c.checked && !v.isInt then ov else some v
  | .cowWithAlias v => if c.checked && !v.isInt then ov else some v
  | .delAlias => none
  | .cowResetAlias => none
  | _ => ov

def orSelf (h : Val) : Except Err Val → Val
  | .ok h' => h'
  | .error _ => h

/-- evolution of the host tree: a function of the tree and the operation only -/
def hostStep (c : Cfg) (h : Val) : Op → Val
  | .writeTarget v => orSelf h (assign h c.path v)
  | .cowWriteTarget v => orSelf h (assign h c.path v)
  | .delTarget => orSelf h (remove h c.path)
  | .cowDelTarget => orSelf h (remove h c.path)
  | .delPrefix => match c.path with
    | [] => h
    | s :: _ => orSelf h (dropSeg h s)
  | .setPrefix v => match c.path with
    | [] => h
    | s :: _ => orSelf h (storeSeg h s v)
  | _ => h

/-- Non-passthrough alias: one step is the product of a step of the host (which
ignores alias operations and the override) and a step of the override (which
ignores target operations and the host). -/
theorem two_variable_step (c : Cfg) (w : World) (op : Op) (hp : c.passthrough = false) :
    (step c w op).1.cur = ⟨hostStep c w.cur.host op, ovStep c w.cur.override op⟩ := by
  cases op <;> simp only [step, hostStep, ovStep, instSet, aliasSet, aliasDelete, hp]
  case readAlias => cases aliasGet c w.cur <;> rfl
  case writeAlias v => cases hc : (c.checked && !v.isInt) <;> simp [hc]
  case cowWithAlias v => cases hc : (c.checked && !v.isInt) <;> simp [hc]
  case delAlias => cases ho : w.cur.override <;> simp [ho] <;> (try rw [← ho])
  case cowResetAlias => cases ho : w.cur.override <;> simp [ho] <;> (try rw [← ho])
  case writeTarget v => cases assign w.cur.host c.path v <;> simp [orSelf]
  case cowWriteTarget v => cases assign w.cur.host c.path v <;> simp [orSelf]
  case delTarget => cases remove w.cur.host c.path <;> simp [orSelf]
  case cowDelTarget => cases remove w.cur.host c.path <;> simp [orSelf]
  case delPrefix =>
    cases c.path with
    | nil => rfl
    | cons s r => simp only []; cases dropSeg w.cur.host s <;> simp [orSelf]
  case setPrefix v =>
    cases c.path with
    | nil => rfl
    | cons s r => simp only []; cases storeSeg w.cur.host s v <;> simp [orSelf]

/-- The two-variable state machine, for every operation sequence: the final host
is the fold of the host steps, the final override the fold of the override steps. -/
theorem two_variable (c : Cfg) (hp : c.passthrough = false) (ops : List Op) (w : World) :
    (run c w ops).1.cur = ⟨ops.foldl (hostStep c) w.cur.host, ops.foldl (ovStep c) w.cur.override⟩ := by
  induction ops generalizing w with
  | nil => rfl
  | cons op ops ih =>
    rw [run_cons]
    simp only [List.foldl_cons]
    rw [ih, two_variable_step c w op hp]

/-- operations that touch the local override -/
def isOvOp : Op → Bool
  | .writeAlias _ | .cowWithAlias _ | .delAlias | .cowResetAlias => true
  | _ => false

/-- A local value is read back unchanged after ANY sequence of operations on the
target (writes, deletes, prefix removal, deepcopy, copy-on-write helpers on the target). -/
theorem shadow_persists (c : Cfg) (hp : c.passthrough = false) (ops : List Op)
    (hops : ∀ op ∈ ops, isOvOp op = false) (w : World) (v : Val) (ho : w.cur.override = some v) :
    (run c w ops).1.cur.override = some v ∧ aliasGet c (run c w ops).1.cur = .val v := by
  have h1 : (run c w ops).1.cur.override = some v := by
    rw [two_variable c hp]
    simp only
    induction ops generalizing w with
    | nil => exact ho
    | cons op ops ih =>
      have hop := hops op (by simp)
      have : ovStep c w.cur.override op = w.cur.override := by
        cases op <;> simp [isOvOp] at hop <;> rfl
      simp only [List.foldl_cons, this]
      exact ih (fun o ho' => hops o (by simp [ho'])) w ho
  exact ⟨h1, by simp [aliasGet, hp, h1]⟩

/-- Operations on the alias never modify the host of a non-passthrough alias, for any sequence. -/
theorem alias_ops_leave_host (c : Cfg) (hp : c.passthrough = false) (ops : List Op)
    (hops : ∀ op ∈ ops, isOvOp op = true ∨ op = .readAlias) (w : World) :
    (run c w ops).1.cur.host = w.cur.host := by
  rw [two_variable c hp]
  simp only
  induction ops generalizing w with
  | nil => rfl
  | cons op ops ih =>
    have : hostStep c w.cur.host op = w.cur.host := by
      rcases hops op (by simp) with h | h
      · cases op <;> simp [isOvOp] at h <;> rfl
      · subst h; rfl
    simp only [List.foldl_cons, this]
    exact ih (fun o ho' => hops o (by simp [ho'])) w

/-- A passthrough alias never acquires a local override: one step … -/
theorem passthrough_step_override (c : Cfg) (w : World) (op : Op) (hp : c.passthrough = true) :
    (step c w op).1.cur.override = w.cur.override := by
  cases op <;> simp only [step, instSet, aliasSet, aliasDelete, hp]
  case readAlias => cases aliasGet c w.cur <;> rfl
  case writeAlias v =>
    cases hc : (c.checked && !v.isInt) <;> simp [hc]
    cases lookupConv w.cur.host c.path.dropLast <;> simp
    cases assign w.cur.host c.path v <;> simp
  case cowWithAlias v =>
    cases hc : (c.checked && !v.isInt) <;> simp [hc]
    cases lookupConv w.cur.host c.path.dropLast <;> simp
    cases assign w.cur.host c.path v <;> simp
  case delAlias =>
    simp
    cases lookupConv w.cur.host c.path.dropLast <;> simp
    cases remove w.cur.host c.path <;> simp
  case cowResetAlias =>
    simp
    cases lookupConv w.cur.host c.path.dropLast <;> simp
    cases remove w.cur.host c.path <;> simp
  case writeTarget v => cases assign w.cur.host c.path v <;> simp
  case cowWriteTarget v => cases assign w.cur.host c.path v <;> simp
  case delTarget => cases remove w.cur.host c.path <;> simp
  case cowDelTarget => cases remove w.cur.host c.path <;> simp
  case delPrefix =>
    cases c.path with
    | nil => rfl
    | cons s r => simp only []; cases dropSeg w.cur.host s <;> simp
  case setPrefix v =>
    cases c.path with
    | nil => rfl
    | cons s r => simp only []; cases storeSeg w.cur.host s v <;> simp

/-- … and every operation sequence. -/
theorem passthrough_never_overrides (c : Cfg) (hp : c.passthrough = true) (ops : List Op) (w : World) :
    (run c w ops).1.cur.override = w.cur.override := by
  induction ops generalizing w with
  | nil => rfl
  | cons op ops ih => rw [run_cons]; simp only; rw [ih, passthrough_step_override c w op hp]

/-! ## passthrough: writes and deletes reach the target -/

/-- A passthrough write whose parent exists and accepts the value: the target now holds
`v`, no override appears, and the alias reads the live view of the new host. -/
theorem passthrough_rt (c : Cfg) (s : Inst) (v : Val) (hp : c.passthrough = true)
    {pre : List Seg} {last : Seg} {parent parent' : Val} (hpath : c.path = pre ++ [last])
    (hpre : lookup s.host pre = .ok parent) (hst : storeSeg parent last v = .ok parent') :
    ∃ h', aliasSet c s v = .ok ⟨h', s.override⟩
      ∧ lookup h' c.path = .ok v
      ∧ aliasGet c ⟨h', s.override⟩ = liveView c h'
      ∧ (c.transform = none → aliasGet c ⟨h', s.override⟩ = .val v) := by
  obtain ⟨h', hh'⟩ := modifyLast_of_prefix (f := fun parent s => storeSeg parent s v) hst pre s.host hpre
  have ha : assign s.host c.path v = .ok h' := by rw [hpath]; exact hh'
  have hl := lookup_assign_same ha
  refine ⟨h', ?_, hl, mirrors c _ (Or.inl hp), fun ht => mirrors_plain c _ (Or.inl hp) ht hl⟩
  have hd : c.path.dropLast = pre := by rw [hpath]; simp
  simp [aliasSet, hp, lookupConv, hd, hpre, ha]

/-- … conversely a passthrough write that succeeds is exactly `assign` on the host, and it never stores an override. -/
theorem passthrough_set_inv (c : Cfg) (s s' : Inst) (v : Val) (hp : c.passthrough = true)
    (h : aliasSet c s v = .ok s') : assign s.host c.path v = .ok s'.host ∧ s'.override = s.override := by
  simp only [aliasSet, hp, if_true] at h
  cases hl : lookupConv s.host c.path.dropLast with
  | error e => simp [hl] at h
  | ok x =>
    simp only [hl] at h
    cases ha : assign s.host c.path v with
    | error e => simp [ha] at h
    | ok h' => simp [ha] at h; subst h; exact ⟨rfl, rfl⟩

/-- … and when the prefix is missing (`AttributeError` or `KeyError` on the way) it raises `AttributeError`, changing nothing. -/
theorem passthrough_set_missing (c : Cfg) (s : Inst) (v : Val) (hp : c.passthrough = true)
    (hm : Missing (lookup s.host c.path.dropLast)) : aliasSet c s v = .error .attributeError := by
  rcases hm with hm | hm <;> simp [aliasSet, hp, lookupConv, hm, conv]

/-- A passthrough delete whose target exists removes it from the host: the target is
then missing, the override is untouched, and the alias reads the fallback copy or raises. -/
theorem passthrough_del (c : Cfg) (s : Inst) (hp : c.passthrough = true)
    {pre : List Seg} {last : Seg} {parent parent' : Val} (hpath : c.path = pre ++ [last])
    (hpre : lookup s.host pre = .ok parent) (hdr : dropSeg parent last = .ok parent') :
    ∃ h', aliasDelete c s = .ok ⟨h', s.override⟩
      ∧ Missing (lookup h' c.path)
      ∧ aliasGet c ⟨h', s.override⟩ = fallbackOr c := by
  obtain ⟨h', hh'⟩ := modifyLast_of_prefix (f := dropSeg) hdr pre s.host hpre
  have ha : remove s.host c.path = .ok h' := by rw [hpath]; exact hh'
  have hl := lookup_remove_same ha
  refine ⟨h', ?_, hl, ?_⟩
  · have hd : c.path.dropLast = pre := by rw [hpath]; simp
    simp [aliasDelete, hp, lookupConv, hd, hpre, ha]
  · rw [mirrors c _ (Or.inl hp)]
    rcases hl with hl | hl <;> simp [liveView, hl]

example : aliasSet ⟨[.attr "d", .item "k"], true, none, none, false, false, false⟩ ⟨.obj [] [("d", .dict [])], none⟩ (.int 4)
    = .ok ⟨.obj [] [("d", .dict [("k", .int 4)])], none⟩ := rfl
example : aliasDelete ⟨[.attr "d", .item "k"], true, none, none, false, false, false⟩ ⟨.obj [] [("d", .dict [("k", .int 4)])], none⟩
    = .ok ⟨.obj [] [("d", .dict [])], none⟩ := rfl

/-! ## lens laws of `lookup` / `assign` -/

/-- put-get -/
theorem lens_put_get {p : List Seg} {o o' v : Val} (h : assign o p v = .ok o') : lookup o' p = .ok v :=
  lookup_assign_same h

/-- get-put -/
theorem lens_get_put {p : List Seg} {o o' v : Val} (hl : lookup o p = .ok v) (h : assign o p v = .ok o') : o' = o :=
  assign_lookup_same p o o' v hl h

/-- put-put -/
theorem lens_put_put {p : List Seg} {o o1 v : Val} (w : Val) (h : assign o p v = .ok o1) :
    assign o1 p w = assign o p w :=
  assign_assign_same p o o1 v w h

/-- frame: a write is invisible along every path that parts ways with it (so are deletes) -/
theorem lens_frame {p q : List Seg} (hd : Diverge p q) {o o' v : Val} (h : assign o p v = .ok o') :
    lookup o' q = lookup o q := lookup_assign_diverge hd h

theorem lens_frame_remove {p q : List Seg} (hd : Diverge p q) {o o' : Val} (h : remove o p = .ok o') :
    lookup o' q = lookup o q := lookup_remove_diverge hd h

/-- The unrestricted commutation law (literal equality of the two results). -/
def LensCommuteFull : Prop :=
  ∀ (p q : List Seg) (o o1 o2 v w : Val), Diverge p q →
    assign o p v = .ok o1 → assign o q w = .ok o2 → assign o1 q w = assign o2 p v

/-- Writes at paths that part ways commute when one of the two targets exists
beforehand. (Otherwise both keys are new in one and the same map and the two results
differ in the insertion order of that map — as the two `__dict__`s do in Python;
`lens_commute_full_fails` is the witness, `lens_frame` + `lens_put_get` say that both
results hold both values and agree on every path that parts ways with the two.) -/
theorem lens_commute_partial {p q : List Seg} (hd : Diverge p q) {o o1 o2 : Val} (v w : Val)
    (hex : (∃ x, lookup o p = .ok x) ∨ (∃ y, lookup o q = .ok y))
    (h1 : assign o p v = .ok o1) (h2 : assign o q w = .ok o2) :
    assign o1 q w = assign o2 p v := assign_comm hd o o1 o2 v w hex h1 h2

/-- With no side condition at all: both orders of two writes at paths that part
ways succeed, both results hold both values, and both agree with the original on
every path that parts ways with the two (so they can differ in nothing but the
insertion order of a map). -/
theorem lens_commute_content {p q : List Seg} (hd : Diverge p q) {o o1 o2 : Val} (v w : Val)
    (h1 : assign o p v = .ok o1) (h2 : assign o q w = .ok o2) :
    ∃ r1 r2, assign o1 q w = .ok r1 ∧ assign o2 p v = .ok r2
      ∧ lookup r1 p = .ok v ∧ lookup r1 q = .ok w ∧ lookup r2 p = .ok v ∧ lookup r2 q = .ok w
      ∧ ∀ x, Diverge p x → Diverge q x → lookup r1 x = lookup o x ∧ lookup r2 x = lookup o x := by
  obtain ⟨r1, hr1⟩ := assign_ok_after_diverge hd o o1 o2 v w h1 h2
  obtain ⟨r2, hr2⟩ := assign_ok_after_diverge hd.symm o o2 o1 w v h2 h1
  refine ⟨r1, r2, hr1, hr2, ?_, lookup_assign_same hr1, lookup_assign_same hr2, ?_, ?_⟩
  · rw [lookup_assign_diverge hd.symm hr1]; exact lookup_assign_same h1
  · rw [lookup_assign_diverge hd hr2]; exact lookup_assign_same h2
  · intro x hpx hqx
    exact ⟨by rw [lookup_assign_diverge hqx hr1, lookup_assign_diverge hpx h1],
           by rw [lookup_assign_diverge hpx hr2, lookup_assign_diverge hqx h2]⟩

theorem lens_commute_full_fails : ¬ LensCommuteFull := by
  intro h
  have := h [.attr "a"] [.attr "b"] (.obj [] []) _ _ (.int 1) (.int 2) (.head _ _ (by decide)) rfl rfl
  simp [assign, modifyLast, storeSeg, fset] at this

example : Diverge [.attr "a", .item "k"] [.attr "a", .item "j", .attr "x"] := .cons _ (.head _ _ (by decide))

/-- non-vacuity of `lens_commute_partial`: a host, two diverging paths, one target present, both writes succeed -/
example : ∃ o o1 o2, (∃ x, lookup o [.attr "a", .item "k"] = .ok x)
    ∧ assign o [.attr "a", .item "k"] (.int 1) = .ok o1 ∧ assign o [.attr "a", .item "j"] (.int 2) = .ok o2 :=
  ⟨.obj [] [("a", .dict [("k", .int 0)])], _, _, ⟨_, rfl⟩, rfl, rfl⟩

/-- non-vacuity of `passthrough_rt` / `passthrough_del`: prefix present, parent accepts -/
example : ∃ (parent parent' : Val), lookup (.obj ["x"] [("sub", .obj ["x"] [])]) [.attr "sub"] = .ok parent
    ∧ storeSeg parent (.attr "x") (.int 3) = .ok parent' := ⟨_, _, rfl, rfl⟩
example : ∃ (parent parent' : Val), lookup (.obj [] [("d", .dict [("k", .int 1)])]) [.attr "d"] = .ok parent
    ∧ dropSeg parent (.item "k") = .ok parent' := ⟨_, _, rfl, rfl⟩
/-- … and a type-checked target refuses an ill-typed passthrough write -/
example : aliasSet ⟨[.attr "x"], true, none, none, false, false, true⟩ ⟨.obj ["x"] [], none⟩ (.str 0) = .error .typeError := rfl

/-- non-vacuity of `shadow_persists` / `two_variable`: target operations after a local assignment -/
example : (run ⟨[.attr "x"], false, none, none, false, false, false⟩ ⟨⟨.obj [] [("x", .int 1)], none⟩, [], 0⟩
    [.writeAlias (.int 9), .writeTarget (.int 2), .delTarget, .deepcopy, .readAlias, .delAlias, .readAlias]).2.map (·.res)
    = [.none, .none, .none, .none, .val (.int 9), .none, .err .attributeError] := rfl

/-- non-vacuity of `missing_raises`: a `KeyError` on the path surfaces as `AttributeError` -/
example : lookup (.obj [] [("d", .dict [])]) [.attr "d", .item "k"] = .error .keyError
    ∧ aliasGet ⟨[.attr "d", .item "k"], false, none, none, false, false, false⟩ ⟨.obj [] [("d", .dict [])], none⟩
      = .err .attributeError := ⟨rfl, rfl⟩

/-! ## DeprecatedAlias = Alias + one warning per descriptor call -/

def asDeprecated (c : Cfg) (b : Bool) : Cfg := { c with deprecated := b }

/-- how often an operation runs a method of the descriptor (`__get__`, `__set__`, `__delete__`):
once per access of the alias; not at all when the type check of the managed attribute refuses
the value first; twice for a read that ends in `AttributeError` on a spec class (CPython
calls the class's `__getattr__`, which spec classes route back to `__getattribute__`) -/
def descriptorCalls (c : Cfg) (w : World) : Op → Nat
  | .readAlias => match aliasGet c w.cur with
    | .err e => readAttempts c e
    | _ => 1
  | .writeAlias v => if c.checked && !v.isInt then 0 else 1
  | .cowWithAlias v => if c.checked && !v.isInt then 0 else 1
  | .delAlias => 1
  | .cowResetAlias => 1
  | _ => 0

theorem deprecated_step (c : Cfg) (w : World) (op : Op) :
    (step (asDeprecated c true) w op).1 = (step (asDeprecated c false) w op).1
    ∧ (step (asDeprecated c true) w op).2.res = (step (asDeprecated c false) w op).2.res
    ∧ (step (asDeprecated c true) w op).2.warns = descriptorCalls (asDeprecated c false) w op
    ∧ (step (asDeprecated c false) w op).2.warns = 0 := by
  have hg : ∀ b, aliasGet (asDeprecated c b) w.cur = aliasGet c w.cur := fun _ => rfl
  have hs : ∀ b v, aliasSet (asDeprecated c b) w.cur v = aliasSet c w.cur v := fun _ _ => rfl
  have hd : ∀ b, aliasDelete (asDeprecated c b) w.cur = aliasDelete c w.cur := fun _ => rfl
  have hr : ∀ b e, readAttempts (asDeprecated c b) e = readAttempts c e := fun _ _ => rfl
  have hc : ∀ b, (asDeprecated c b).checked = c.checked := fun _ => rfl
  have hpth : ∀ b, (asDeprecated c b).path = c.path := fun _ => rfl
  have hw1 : warnsOf (asDeprecated c true) = 1 := rfl
  have hw0 : warnsOf (asDeprecated c false) = 0 := rfl
  cases op <;> simp only [step, descriptorCalls, instSet, hg, hs, hd, hr, hc, hpth, hw1, hw0]
  case readAlias => cases aliasGet c w.cur <;> simp
  case writeAlias v =>
    cases hcc : (c.checked && !v.isInt) <;> simp [hcc]
    cases aliasSet c w.cur v <;> simp
  case cowWithAlias v =>
    cases hcc : (c.checked && !v.isInt) <;> simp [hcc]
    cases aliasSet c w.cur v <;> simp
  case delAlias => cases aliasDelete c w.cur <;> simp
  case cowResetAlias => cases aliasDelete c w.cur <;> simp
  case readTarget => simp
  case deepcopy => simp
  case writeTarget v => cases assign w.cur.host c.path v <;> simp
  case cowWriteTarget v => cases assign w.cur.host c.path v <;> simp
  case delTarget => cases remove w.cur.host c.path <;> simp
  case cowDelTarget => cases remove w.cur.host c.path <;> simp
  case delPrefix =>
    cases c.path with
    | nil => simp
    | cons s r => simp only []; cases dropSeg w.cur.host s <;> simp
  case setPrefix v =>
    cases c.path with
    | nil => simp
    | cons s r => simp only []; cases storeSeg w.cur.host s v <;> simp

/-- descriptor calls along a run -/
def callsAlong (c : Cfg) : World → List Op → List Nat
  | _, [] => []
  | w, op :: ops => descriptorCalls c w op :: callsAlong c (step c w op).1 ops

/-- For every configuration and every operation sequence, `DeprecatedAlias` and
`Alias` go through the same states and return the same results; the deprecated one
emits exactly one warning per descriptor call, the plain one none. -/
theorem deprecated_same (c : Cfg) (ops : List Op) (w : World) :
    (run (asDeprecated c true) w ops).1 = (run (asDeprecated c false) w ops).1
    ∧ (run (asDeprecated c true) w ops).2.map (·.res) = (run (asDeprecated c false) w ops).2.map (·.res)
    ∧ (run (asDeprecated c true) w ops).2.map (·.warns) = callsAlong (asDeprecated c false) w ops
    ∧ (run (asDeprecated c false) w ops).2.map (·.warns) = ops.map fun _ => 0 := by
  induction ops generalizing w with
  | nil => exact ⟨rfl, rfl, rfl, rfl⟩
  | cons op ops ih =>
    obtain ⟨h1, h2, h3, h4⟩ := deprecated_step c w op
    simp only [run_cons, List.map_cons, callsAlong]
    rw [h1]
    obtain ⟨i1, i2, i3, i4⟩ := ih (step (asDeprecated c false) w op).1
    exact ⟨i1, by rw [h2, i2], by rw [h3, i3], by rw [h4, i4]⟩

example : (run ⟨[.attr "x"], true, none, none, true, false, false⟩ ⟨⟨.obj [] [("x", .int 1)], none⟩, [], 0⟩
    [.readAlias, .writeAlias (.int 2), .readTarget, .delAlias]).2.map (·.warns) = [1, 1, 0, 1] := rfl

/-! ## copies: deepcopy and copy-on-write helpers leave every earlier instance alone -/

/-- `deepcopy`: the copy reads like the original, which is kept as it was. -/
theorem copy_carries (c : Cfg) (w : World) :
    (step c w .deepcopy).1.cur = w.cur
    ∧ (step c w .deepcopy).1.olds = w.cur :: w.olds
    ∧ aliasGet c (step c w .deepcopy).1.cur = aliasGet c w.cur := ⟨rfl, rfl, rfl⟩

theorem step_olds (c : Cfg) (w : World) (op : Op) :
    (step c w op).1.olds = w.olds ∨ (step c w op).1.olds = w.cur :: w.olds := by
  cases op <;> simp only [step]
  case readAlias => cases aliasGet c w.cur <;> simp
  case writeAlias v => rcases instSet c w.cur v with ⟨r | r, n⟩ <;> simp
  case cowWithAlias v => rcases instSet c w.cur v with ⟨r | r, n⟩ <;> simp
  case delAlias => cases aliasDelete c w.cur <;> simp
  case cowResetAlias => cases aliasDelete c w.cur <;> simp
  case readTarget => simp
  case deepcopy => simp
  case writeTarget v => cases assign w.cur.host c.path v <;> simp
  case cowWriteTarget v => cases assign w.cur.host c.path v <;> simp
  case delTarget => cases remove w.cur.host c.path <;> simp
  case cowDelTarget => cases remove w.cur.host c.path <;> simp
  case delPrefix =>
    cases c.path with
    | nil => simp
    | cons s r => simp only []; cases dropSeg w.cur.host s <;> simp
  case setPrefix v =>
    cases c.path with
    | nil => simp
    | cons s r => simp only []; cases storeSeg w.cur.host s v <;> simp

/-- Whatever is done afterwards — any operation sequence — the instances that existed
before (originals of copies and of copy-on-write helpers) are still there, unchanged. -/
theorem olds_frame (c : Cfg) (ops : List Op) (w : World) :
    ∃ new, (run c w ops).1.olds = new ++ w.olds := by
  induction ops generalizing w with
  | nil => exact ⟨[], rfl⟩
  | cons op ops ih =>
    rw [run_cons]
    obtain ⟨new, hn⟩ := ih (step c w op).1
    rcases step_olds c w op with h | h
    · exact ⟨new, by simp only; rw [hn, h]⟩
    · exact ⟨new ++ [w.cur], by simp only; rw [hn, h]; simp⟩

/-- A copy-on-write helper is the in-place operation performed on a copy: same
result, same new state; on success the receiver is kept (unchanged) among the
earlier instances, on failure nothing at all happens. -/
theorem cow_is_copy_then_write (c : Cfg) (w : World) :
    (∀ v, (step c w (.cowWithAlias v)).1.cur = (step c w (.writeAlias v)).1.cur
        ∧ (step c w (.cowWithAlias v)).2 = (step c w (.writeAlias v)).2)
    ∧ ((step c w .cowResetAlias).1.cur = (step c w .delAlias).1.cur
        ∧ (step c w .cowResetAlias).2 = (step c w .delAlias).2)
    ∧ (∀ v, (step c w (.cowWriteTarget v)).1.cur = (step c w (.writeTarget v)).1.cur
        ∧ (step c w (.cowWriteTarget v)).2 = (step c w (.writeTarget v)).2)
    ∧ ((step c w .cowDelTarget).1.cur = (step c w .delTarget).1.cur
        ∧ (step c w .cowDelTarget).2 = (step c w .delTarget).2) := by
  refine ⟨fun v => ?_, ?_, fun v => ?_, ?_⟩ <;> simp only [step]
  · rcases instSet c w.cur v with ⟨r | r, n⟩ <;> simp
  · cases aliasDelete c w.cur <;> simp
  · cases assign w.cur.host c.path v <;> simp
  · cases remove w.cur.host c.path <;> simp

/-! ## fallback copies are new every time, along any run -/

def freshIds : List Out → List Nat
  | [] => []
  | o :: os => match o.res with
    | .fresh _ id => id :: freshIds os
    | _ => freshIds os

theorem step_fresh (c : Cfg) (w : World) (op : Op) :
    ((step c w op).1.fresh = w.fresh ∧ ∀ v id, (step c w op).2.res ≠ .fresh v id)
    ∨ ((step c w op).1.fresh = w.fresh + 1 ∧ ∃ v, (step c w op).2.res = .fresh v (w.fresh + 1)) := by
  cases op <;> simp only [step]
  case readAlias => cases aliasGet c w.cur <;> simp
  case writeAlias v => rcases instSet c w.cur v with ⟨r | r, n⟩ <;> simp
  case cowWithAlias v => rcases instSet c w.cur v with ⟨r | r, n⟩ <;> simp
  case delAlias => cases aliasDelete c w.cur <;> simp
  case cowResetAlias => cases aliasDelete c w.cur <;> simp
  case readTarget => cases lookup w.cur.host c.path <;> simp [resOf]
  case deepcopy => simp
  case writeTarget v => cases assign w.cur.host c.path v <;> simp
  case cowWriteTarget v => cases assign w.cur.host c.path v <;> simp
  case delTarget => cases remove w.cur.host c.path <;> simp
  case cowDelTarget => cases remove w.cur.host c.path <;> simp
  case delPrefix =>
    cases c.path with
    | nil => simp
    | cons s r => simp only []; cases dropSeg w.cur.host s <;> simp
  case setPrefix v =>
    cases c.path with
    | nil => simp
    | cons s r => simp only []; cases storeSeg w.cur.host s v <;> simp

/-- Along any run the identities of the fallback copies handed out are strictly
increasing (hence pairwise distinct), all newer than anything handed out before. -/
theorem fresh_ids_increase (c : Cfg) (ops : List Op) (w : World) :
    w.fresh ≤ (run c w ops).1.fresh
    ∧ (∀ id ∈ freshIds (run c w ops).2, w.fresh < id ∧ id ≤ (run c w ops).1.fresh)
    ∧ (freshIds (run c w ops).2).Pairwise (· < ·) := by
  induction ops generalizing w with
  | nil => simp [run, freshIds]
  | cons op ops ih =>
    rw [run_cons]
    obtain ⟨i1, i2, i3⟩ := ih (step c w op).1
    rcases step_fresh c w op with ⟨hf, hno⟩ | ⟨hf, v, hv⟩
    · have hfi : freshIds ((step c w op).2 :: (run c (step c w op).1 ops).2) = freshIds (run c (step c w op).1 ops).2 := by
        cases hres : (step c w op).2.res with
        | fresh v id => exact absurd hres (hno v id)
        | none => simp [freshIds, hres]
        | val v => simp [freshIds, hres]
        | err e => simp [freshIds, hres]
      simp only [hfi]
      rw [hf] at i1 i2
      exact ⟨i1, i2, i3⟩
    · have hfi : freshIds ((step c w op).2 :: (run c (step c w op).1 ops).2) = (w.fresh + 1) :: freshIds (run c (step c w op).1 ops).2 := by
        simp only [freshIds, hv]
      simp only [hfi]
      rw [hf] at i1 i2
      refine ⟨by omega, ?_, ?_⟩
      · intro id hid
        rcases List.mem_cons.1 hid with h | h
        · subst h; omega
        · have := i2 id h; omega
      · refine List.pairwise_cons.2 ⟨?_, i3⟩
        intro id hid
        have := i2 id hid; omega

/-! ## the path parser and the renderer are inverse to each other -/

/-- render ∘ parse = id on accepted strings: the matches of an accepted path, joined,
are the path (this *is* the join check of `_attr_path`). -/
theorem path_roundtrip_render {s : List Char} {ts : List Tok} (h : parsePath s = .ok ts) :
    renderToks ts = s := by
  rw [parsePath_eq] at h
  cases ht : tokenize s with
  | none => simp [ht] at h
  | some ts' => simp [ht] at h; subst h; exact tokenize_sound ht

/-- parse ∘ render = id on canonical token lists … -/
theorem path_roundtrip_parse {ts : List Tok} (h : CanonToks true false ts) :
    parsePath (renderToks ts) = .ok ts := by
  rw [parsePath_eq, tokenize_complete h]

/-- … and the canonical token lists are exactly what the parser returns: accepted
strings and canonical token lists are in bijection. -/
theorem path_accepted_iff (s : List Char) (ts : List Tok) :
    parsePath s = .ok ts ↔ (CanonToks true false ts ∧ renderToks ts = s) := by
  constructor
  · intro h
    refine ⟨?_, path_roundtrip_render h⟩
    rw [parsePath_eq] at h
    cases ht : tokenize s with
    | none => simp [ht] at h
    | some ts' => simp [ht] at h; subst h; exact tokenize_canon ht
  · rintro ⟨hc, rfl⟩; exact path_roundtrip_parse hc

/-- a string is rejected (`ValueError`) iff it is the rendering of no canonical token list -/
theorem path_rejected_iff (s : List Char) :
    parsePath s = .error .valueError ↔ ¬ ∃ ts, CanonToks true false ts ∧ renderToks ts = s := by
  constructor
  · rintro h ⟨ts, hts⟩
    rw [(path_accepted_iff s ts).2 hts] at h; cases h
  · intro h
    rw [parsePath_eq]
    cases ht : tokenize s with
    | none => rfl
    | some ts =>
      exfalso; apply h
      have : parsePath s = .ok ts := by rw [parsePath_eq, ht]
      exact ⟨ts, (path_accepted_iff s ts).1 this⟩

/-- Segment level: every segment list whose attribute names are `\w+` (keys are
arbitrary) has a canonical path string `a.b["k"].c`; parsing it gives back exactly
these accesses. -/
theorem path_roundtrip_segs {p : List Seg} (h : CanonSegs p) :
    parsePath (renderSegs p) = .ok (segsToks true p) ∧ toksSegs (segsToks true p) = some p :=
  ⟨path_roundtrip_parse (canon_segsToks p true false h (fun _ => rfl)), toksSegs_segsToks p true⟩

/-- the identifier shortcut of `_attr_path` is redundant (ASCII) -/
theorem identifier_shortcut {s : List Char} (h : isIdentifier s = true) :
    tokenize s = some [⟨false, .word s⟩] := tokenize_identifier h

example : parsePath "a[\"k.j\"].b".toList
    = .ok [⟨false, .word ['a']⟩, ⟨false, .key .dq ['k', '.', 'j']⟩, ⟨true, .word ['b']⟩] := by rfl
example : parsePath "a.[\"k\"]".toList = .error .valueError := by rfl
example : parsePath "['k']x".toList = .ok [⟨false, .key .sq ['k']⟩, ⟨false, .word ['x']⟩] := by rfl
example : renderSegs [.attr "a", .item "k\"q", .attr "b"] = "a[\"k\\\"q\"].b".toList := by decide
example : CanonSegs [.attr "a", .item "k.j", .attr "b1"] :=
  ⟨⟨by decide, by decide⟩, ⟨by decide, by decide⟩, trivial⟩

/-! ## generated helpers on the alias attribute: with_/update_/transform_/reset_<alias>

`XOp` = the operations above plus the helper calls (`HOp`); `xstep`/`xrun` are what the driver
evaluates. A helper computes a value (reading the alias for `update_`/`transform_`) and then
assigns it to the alias attribute, in place or on a copy. -/

theorem step_host (c : Cfg) (w : World) (op : Op) (hp : c.passthrough = false) :
    (step c w op).1.cur.host = hostStep c w.cur.host op := by
  rw [two_variable_step c w op hp]

theorem xrun_cons (x : XCfg) (w : World) (op : XOp) (ops : List XOp) :
    xrun x w (op :: ops) = ((xrun x (xstep x w op).1 ops).1, (xstep x w op).2 :: (xrun x (xstep x w op).1 ops).2) := rfl

/-- the type check of `mutate_attr`, then the plain assignment: nothing else -/
theorem xwrite_eq (x : XCfg) (w : World) (inplace : Bool) (v : Val) :
    xwrite x w inplace v = xstep x w (.base (if inplace then .writeAlias v else .cowWithAlias v)) := by
  cases inplace <;> simp [xwrite, xstep, XCfg.refuses]

/-- the host step of the mixed alphabet: helper calls are operations on the alias — they are not in it -/
def hostStepX (c : Cfg) (h : Val) : XOp → Val
  | .base op => hostStep c h op
  | .helper _ => h

/-- **Every helper on a non-passthrough alias leaves the host tree — hence the target, whatever it
holds — exactly as it was**, in place or copying, with values, nested keywords or attribute
transforms, overridden or not, whether it succeeds or raises. -/
theorem helper_leaves_host (x : XCfg) (w : World) (h : HOp) (hp : x.base.passthrough = false) :
    (hstep x w h).1.cur.host = w.cur.host := by
  cases h with
  | reset i => cases i <;> simp [hstep, step_host _ _ _ hp, hostStep]
  | write i k =>
    simp only [hstep]
    rcases computeValue x w.cur k with ⟨r | v, n⟩
    · rfl
    · simp only []
      rcases protectRead x.base w.cur i k with ⟨_ | e, m⟩
      · simp only [addWarns, xwrite]
        split
        · rfl
        · cases i <;> simp [step_host _ _ _ hp, hostStep]
      · rfl

/-- … in particular the target reads as before (same value or same exception) -/
theorem helper_leaves_target (x : XCfg) (w : World) (h : HOp) (hp : x.base.passthrough = false) :
    lookup (hstep x w h).1.cur.host x.base.path = lookup w.cur.host x.base.path := by
  rw [helper_leaves_host x w h hp]

theorem xstep_host (x : XCfg) (w : World) (op : XOp) (hp : x.base.passthrough = false) :
    (xstep x w op).1.cur.host = hostStepX x.base w.cur.host op := by
  cases op with
  | helper h => exact helper_leaves_host x w h hp
  | base op =>
    simp only [xstep, hostStepX]
    split
    · rename_i hr
      cases op <;> simp [XCfg.refuses] at hr <;> rfl
    · exact step_host _ _ _ hp

/-- Non-passthrough alias, mixed sequences of any length: the host evolves by the target-side
operations alone; reads, assignments, deletions and ALL helper calls on the alias are invisible in it. -/
theorem x_host_independent (x : XCfg) (hp : x.base.passthrough = false) (ops : List XOp) (w : World) :
    (xrun x w ops).1.cur.host = ops.foldl (hostStepX x.base) w.cur.host := by
  induction ops generalizing w with
  | nil => rfl
  | cons op ops ih => rw [xrun_cons]; simp only [List.foldl_cons]; rw [ih, xstep_host x w op hp]

/-- an operation on the alias attribute: a base alias operation or any helper call -/
def isAliasXOp : XOp → Bool
  | .base op => isOvOp op || (match op with | .readAlias => true | _ => false)
  | .helper _ => true

theorem x_alias_ops_leave_host (x : XCfg) (hp : x.base.passthrough = false) (ops : List XOp)
    (hops : ∀ op ∈ ops, isAliasXOp op = true) (w : World) :
    (xrun x w ops).1.cur.host = w.cur.host := by
  rw [x_host_independent x hp]
  induction ops generalizing w with
  | nil => rfl
  | cons op ops ih =>
    have : hostStepX x.base w.cur.host op = w.cur.host := by
      have h := hops op (by simp)
      cases op with
      | helper _ => rfl
      | base op => cases op <;> simp [isAliasXOp, isOvOp] at h <;> rfl
    simp only [List.foldl_cons, this]
    exact ih (fun o ho => hops o (by simp [ho])) w

/-- A helper that gets as far as the assignment IS the plain assignment of the value it computed
(`instance.alias = v`, on the receiver or on a copy that leaves the receiver behind): every theorem
about local assignment (`shadow`, `shadow_persists`, `delete_restores`, `passthrough_rt`, …) applies to it. -/
theorem helper_is_assignment (x : XCfg) (w : World) (i : Bool) (k : HKind) {v : Val} {n m : Nat}
    (hv : computeValue x w.cur k = (.ok v, n)) (hpr : protectRead x.base w.cur i k = (none, m)) :
    (hstep x w (.write i k)).1 = (xstep x w (.base (if i then .writeAlias v else .cowWithAlias v))).1
    ∧ (hstep x w (.write i k)).2.res = (xstep x w (.base (if i then .writeAlias v else .cowWithAlias v))).2.res
    ∧ (hstep x w (.write i k)).2.warns
        = (xstep x w (.base (if i then .writeAlias v else .cowWithAlias v))).2.warns + (n + m) * warnsOf x.base := by
  refine ⟨?_, ?_, ?_⟩ <;> simp [hstep, hv, hpr, addWarns, xwrite_eq]

/-- A helper that fails while it computes the value, or at the second lookup, changes nothing at all. -/
theorem helper_failure_atomic (x : XCfg) (w : World) (i : Bool) (k : HKind) :
    (∀ e n, computeValue x w.cur k = (.error e, n) → hstep x w (.write i k) = (w, ⟨.err e, n * warnsOf x.base⟩))
    ∧ (∀ v n e m, computeValue x w.cur k = (.ok v, n) → protectRead x.base w.cur i k = (some e, m) →
        hstep x w (.write i k) = (w, ⟨.err e, (n + m) * warnsOf x.base⟩)) := by
  constructor
  · intro e n h; simp [hstep, h]
  · intro v n e m h1 h2; simp [hstep, h1, h2]

/-- whatever a helper does, the instances that existed before are kept; a copying helper that
succeeds puts the receiver (unchanged) in front of them -/
theorem hstep_olds (x : XCfg) (w : World) (h : HOp) :
    (hstep x w h).1.olds = w.olds ∨ (hstep x w h).1.olds = w.cur :: w.olds := by
  cases h with
  | reset i => cases i <;> simp only [hstep] <;> exact step_olds _ _ _
  | write i k =>
    simp only [hstep]
    rcases computeValue x w.cur k with ⟨r | v, n⟩
    · exact Or.inl rfl
    · simp only []
      rcases protectRead x.base w.cur i k with ⟨_ | e, m⟩
      · simp only [addWarns, xwrite]
        split
        · exact Or.inl rfl
        · exact step_olds _ _ _
      · exact Or.inl rfl

theorem xstep_olds (x : XCfg) (w : World) (op : XOp) :
    (xstep x w op).1.olds = w.olds ∨ (xstep x w op).1.olds = w.cur :: w.olds := by
  cases op with
  | helper h => exact hstep_olds x w h
  | base op =>
    simp only [xstep]
    split
    · exact Or.inl rfl
    · exact step_olds _ _ _

/-- `olds_frame` for mixed sequences: earlier instances are never touched, by helper calls either -/
theorem x_olds_frame (x : XCfg) (ops : List XOp) (w : World) :
    ∃ new, (xrun x w ops).1.olds = new ++ w.olds := by
  induction ops generalizing w with
  | nil => exact ⟨[], rfl⟩
  | cons op ops ih =>
    rw [xrun_cons]
    obtain ⟨new, hn⟩ := ih (xstep x w op).1
    rcases xstep_olds x w op with h | h
    · exact ⟨new, by simp only; rw [hn, h]⟩
    · exact ⟨new ++ [w.cur], by simp only; rw [hn, h]; simp⟩

/-- a passthrough alias never acquires a local override through a helper either -/
theorem x_passthrough_step_override (x : XCfg) (w : World) (op : XOp) (hp : x.base.passthrough = true) :
    (xstep x w op).1.cur.override = w.cur.override := by
  cases op with
  | base op =>
    simp only [xstep]
    split
    · rfl
    · exact passthrough_step_override _ _ _ hp
  | helper h =>
    cases h with
    | reset i => cases i <;> simp only [xstep, hstep] <;> exact passthrough_step_override _ _ _ hp
    | write i k =>
      simp only [xstep, hstep]
      rcases computeValue x w.cur k with ⟨r | v, n⟩
      · rfl
      · simp only []
        rcases protectRead x.base w.cur i k with ⟨_ | e, m⟩
        · simp only [addWarns, xwrite]
          split
          · rfl
          · exact passthrough_step_override _ _ _ hp
        · rfl

theorem x_passthrough_never_overrides (x : XCfg) (hp : x.base.passthrough = true) (ops : List XOp) (w : World) :
    (xrun x w ops).1.cur.override = w.cur.override := by
  induction ops generalizing w with
  | nil => rfl
  | cons op ops ih => rw [xrun_cons]; simp only; rw [ih, x_passthrough_step_override x w op hp]

/-- the state after a helper on a non-passthrough alias that computed `v` and passed the type check:
the host is the receiver's, the local value is `v`, the receiver is left behind by the copying form -/
theorem helper_success_state (x : XCfg) (w : World) (i : Bool) (k : HKind) {v : Val} {n m : Nat}
    (hp : x.base.passthrough = false)
    (hv : computeValue x w.cur k = (.ok v, n)) (hpr : protectRead x.base w.cur i k = (none, m))
    (hty : x.typeOk v = true) :
    (hstep x w (.write i k)).1.cur = ⟨w.cur.host, some v⟩
    ∧ (hstep x w (.write i k)).1.olds = (if i then w.olds else w.cur :: w.olds)
    ∧ (hstep x w (.write i k)).2.res = .none
    ∧ aliasGet x.base (hstep x w (.write i k)).1.cur = .val v := by
  have hc : (x.base.checked && !v.isInt) = false := by
    simp only [XCfg.typeOk, Bool.and_eq_true, Bool.or_eq_true, Bool.not_eq_true'] at hty
    rcases hty.1 with h | h <;> simp [h]
  have hcur : (hstep x w (.write i k)).1.cur = ⟨w.cur.host, some v⟩
      ∧ (hstep x w (.write i k)).1.olds = (if i then w.olds else w.cur :: w.olds)
      ∧ (hstep x w (.write i k)).2.res = .none := by
    cases i <;> simp [hstep, hv, hpr, addWarns, xwrite, hty, step, instSet, hc, aliasSet, hp]
  refine ⟨hcur.1, hcur.2.1, hcur.2.2, ?_⟩
  rw [hcur.1]; simp [aliasGet, hp]

/-- **`update_<alias>(**attrs)` on an alias that mirrors its target `t`** (no local value yet; in
place or copying): the local value becomes `t` with the attributes set, the TARGET IS STILL `t`,
and deleting the local value brings the live view of the unmodified target back. -/
theorem update_shadows_nested (x : XCfg) (w : World) (i : Bool) (attrs : Attrs) {t t' : Val}
    (hp : x.base.passthrough = false) (hno : w.cur.override = none) (htr : x.base.transform = none)
    (hl : lookup w.cur.host x.base.path = .ok t) (ha : applyAttrs t attrs = .ok t') (hty : x.typeOk t' = true) :
    (hstep x w (.write i (.updA none attrs))).1.cur = ⟨w.cur.host, some t'⟩
    ∧ lookup (hstep x w (.write i (.updA none attrs))).1.cur.host x.base.path = .ok t
    ∧ aliasGet x.base (hstep x w (.write i (.updA none attrs))).1.cur = .val t'
    ∧ (step x.base (hstep x w (.write i (.updA none attrs))).1 .delAlias).1.cur = ⟨w.cur.host, none⟩
    ∧ aliasGet x.base ⟨w.cur.host, none⟩ = .val t := by
  have hg : aliasGet x.base w.cur = .val t := mirrors_plain x.base w.cur (Or.inr hno) htr hl
  have hv : computeValue x w.cur (.updA none attrs) = (.ok t', 1) := by
    simp [computeValue, readOld, hg, ha]
  have hpr : ∃ m, protectRead x.base w.cur i (.updA none attrs) = (none, m) := by
    cases i <;> simp [protectRead, HKind.protects, readOld, hg]
  obtain ⟨m, hpr⟩ := hpr
  obtain ⟨h1, _, _, h4⟩ := helper_success_state x w i _ hp hv hpr hty
  refine ⟨h1, by rw [h1]; exact hl, h4, ?_, mirrors_plain x.base _ (Or.inr rfl) htr hl⟩
  simp [step, aliasDelete, hp, h1]

/-- … and the same for `transform_<alias>(**attr_transforms)` -/
theorem transform_shadows_nested (x : XCfg) (w : World) (i : Bool) (ats : List (String × Xf)) {t t' : Val}
    (hp : x.base.passthrough = false) (hno : w.cur.override = none) (htr : x.base.transform = none)
    (hl : lookup w.cur.host x.base.path = .ok t) (ha : applyXfs t ats = .ok t') (hty : x.typeOk t' = true) :
    (hstep x w (.write i (.trA none ats))).1.cur = ⟨w.cur.host, some t'⟩
    ∧ lookup (hstep x w (.write i (.trA none ats))).1.cur.host x.base.path = .ok t
    ∧ aliasGet x.base (hstep x w (.write i (.trA none ats))).1.cur = .val t'
    ∧ (step x.base (hstep x w (.write i (.trA none ats))).1 .delAlias).1.cur = ⟨w.cur.host, none⟩
    ∧ aliasGet x.base ⟨w.cur.host, none⟩ = .val t := by
  have hg : aliasGet x.base w.cur = .val t := mirrors_plain x.base w.cur (Or.inr hno) htr hl
  have hv : computeValue x w.cur (.trA none ats) = (.ok t', 1) := by
    simp [computeValue, readOld, hg, ha]
  have hpr : ∃ m, protectRead x.base w.cur i (.trA none ats) = (none, m) := by
    cases i <;> simp [protectRead, HKind.protects, readOld, hg]
  obtain ⟨m, hpr⟩ := hpr
  obtain ⟨h1, _, _, h4⟩ := helper_success_state x w i _ hp hv hpr hty
  refine ⟨h1, by rw [h1]; exact hl, h4, ?_, mirrors_plain x.base _ (Or.inr rfl) htr hl⟩
  simp [step, aliasDelete, hp, h1]

/-- non-vacuity: a nested target `{x = 1}` behind `d["k"]`, `update_al(x=5, _inplace=True)`:
the alias reads `{x = 5}`, the target still reads `{x = 1}` -/
example :
    let x : XCfg := ⟨⟨[.attr "d", .item "k"], false, none, none, false, false, true⟩, some (.obj ["x"] [])⟩
    let w : World := ⟨⟨.obj ["x"] [("d", .dict [("k", .obj ["x"] [("x", .int 1)])])], none⟩, [], 0⟩
    (xrun x w [.helper (.write true (.updA none [("x", .int 5)])), .base .readAlias, .base .readTarget,
               .helper (.reset true), .base .readAlias]).2.map (·.res)
      = [.none, .val (.obj ["x"] [("x", .int 5)]), .val (.obj ["x"] [("x", .int 1)]), .none,
         .val (.obj ["x"] [("x", .int 1)])] := by rfl
/-- … an ill-typed nested keyword raises `TypeError` and changes nothing; the copying transform leaves the receiver behind -/
example :
    let x : XCfg := ⟨⟨[.attr "d", .item "k"], false, none, none, false, false, true⟩, some (.obj ["x"] [])⟩
    let w : World := ⟨⟨.obj ["x"] [("d", .dict [("k", .obj ["x"] [("x", .int 1)])])], none⟩, [], 0⟩
    (xstep x w (.helper (.write true (.updA none [("x", .str 0)])))) = (w, ⟨.err .typeError, 0⟩)
    ∧ (xstep x w (.helper (.write false (.trA none [("x", .add 10)])))).1.olds = [w.cur] := by
  exact ⟨rfl, rfl⟩

/-- A helper on a PASSTHROUGH alias that succeeds forwards the value it computed to the target:
the new host is `assign host path v`, the target then holds `v`, no override appears. -/
theorem helper_passthrough_reaches_target (x : XCfg) (w : World) (i : Bool) (k : HKind) {v : Val} {n m : Nat}
    (hp : x.base.passthrough = true)
    (hv : computeValue x w.cur k = (.ok v, n)) (hpr : protectRead x.base w.cur i k = (none, m))
    (hok : (hstep x w (.write i k)).2.res = .none) :
    assign w.cur.host x.base.path v = .ok (hstep x w (.write i k)).1.cur.host
    ∧ lookup (hstep x w (.write i k)).1.cur.host x.base.path = .ok v
    ∧ (hstep x w (.write i k)).1.cur.override = w.cur.override := by
  have key : ∀ s', aliasSet x.base w.cur v = .ok s' →
      assign w.cur.host x.base.path v = .ok s'.host ∧ lookup s'.host x.base.path = .ok v ∧ s'.override = w.cur.override := by
    intro s' hs
    obtain ⟨h1, h2⟩ := passthrough_set_inv x.base w.cur s' v hp hs
    exact ⟨h1, lookup_assign_same h1, h2⟩
  simp only [hstep, hv, hpr, addWarns, xwrite] at hok ⊢
  cases ht : x.typeOk v
  · simp [ht] at hok
  · simp only [ht, Bool.not_true, Bool.false_eq_true, if_false] at hok ⊢
    cases i
    · simp only [Bool.false_eq_true, if_false, step, instSet] at hok ⊢
      cases hc : (x.base.checked && !v.isInt)
      · simp only [hc, Bool.false_eq_true, if_false] at hok ⊢
        cases hs : aliasSet x.base w.cur v with
        | error e => simp [hs] at hok
        | ok s' => simpa [hs] using key s' hs
      · simp [hc] at hok
    · simp only [if_true, step, instSet] at hok ⊢
      cases hc : (x.base.checked && !v.isInt)
      · simp only [hc, Bool.false_eq_true, if_false] at hok ⊢
        cases hs : aliasSet x.base w.cur v with
        | error e => simp [hs] at hok
        | ok s' => simpa [hs] using key s' hs
      · simp [hc] at hok

/-! ### DeprecatedAlias through the helpers: one warning per descriptor call, nothing else -/

def asDeprecatedX (x : XCfg) (b : Bool) : XCfg := { x with base := asDeprecated x.base b }

/-- descriptor calls of a helper: the lookups spent on computing the value (`update_` without a
replacement value and `transform_` read the alias; the copying forms look it up once more; a lookup that
ends in `AttributeError` on a spec class counts twice, one that raises inside the lazy proxy twice), plus
the `__set__` when the value passes the type check; `reset_` is one `__delete__` -/
def helperCalls (x : XCfg) (w : World) : HOp → Nat
  | .reset _ => 1
  | .write i k =>
    match computeValue x w.cur k with
    | (.error _, n) => n
    | (.ok v, n) =>
      match protectRead x.base w.cur i k with
      | (some _, m) => n + m
      | (none, m) => n + m + (if x.typeOk v then 1 else 0)

def xCalls (x : XCfg) (w : World) : XOp → Nat
  | .base op => if x.refuses op then 0 else descriptorCalls x.base w op
  | .helper h => helperCalls x w h

theorem x_deprecated_step (x : XCfg) (w : World) (op : XOp) :
    (xstep (asDeprecatedX x true) w op).1 = (xstep (asDeprecatedX x false) w op).1
    ∧ (xstep (asDeprecatedX x true) w op).2.res = (xstep (asDeprecatedX x false) w op).2.res
    ∧ (xstep (asDeprecatedX x true) w op).2.warns = xCalls (asDeprecatedX x false) w op
    ∧ (xstep (asDeprecatedX x false) w op).2.warns = 0 := by
  have hbase : ∀ b, (asDeprecatedX x b).base = asDeprecated x.base b := fun _ => rfl
  have href : ∀ b o, (asDeprecatedX x b).refuses o = x.refuses o := by
    intro b o; cases o <;> rfl
  have hty : ∀ b v, (asDeprecatedX x b).typeOk v = x.typeOk v := fun _ _ => rfl
  have hcv : ∀ b k, computeValue (asDeprecatedX x b) w.cur k = computeValue x w.cur k := by
    intro b k; cases k <;> rfl
  have hprr : ∀ b i k, protectRead (asDeprecated x.base b) w.cur i k = protectRead x.base w.cur i k := fun _ _ _ => rfl
  have hw1 : warnsOf (asDeprecated x.base true) = 1 := rfl
  have hw0 : warnsOf (asDeprecated x.base false) = 0 := rfl
  cases op with
  | base o =>
    simp only [xstep, xCalls, href, hbase]
    split
    · exact ⟨rfl, rfl, rfl, rfl⟩
    · exact deprecated_step x.base w o
  | helper h =>
    cases h with
    | reset i =>
      cases i
      · simpa [xstep, hstep, xCalls, helperCalls, hbase, descriptorCalls] using deprecated_step x.base w .cowResetAlias
      · simpa [xstep, hstep, xCalls, helperCalls, hbase, descriptorCalls] using deprecated_step x.base w .delAlias
    | write i k =>
      simp only [xstep, hstep, xCalls, helperCalls, hcv, hbase, hprr, hw1, hw0]
      rcases computeValue x w.cur k with ⟨e | v, n⟩
      · simp
      · simp only []
        rcases protectRead x.base w.cur i k with ⟨_ | e, m⟩
        · simp only [addWarns, xwrite, hty, hbase]
          cases ht : x.typeOk v
          · simp
          · have hc : (x.base.checked && !v.isInt) = false := by
              simp only [XCfg.typeOk, Bool.and_eq_true, Bool.or_eq_true, Bool.not_eq_true'] at ht
              rcases ht.1 with h | h <;> simp [h]
            cases i
            · have := deprecated_step x.base w (.cowWithAlias v)
              simp only [descriptorCalls] at this
              have hcc : (asDeprecated x.base false).checked = x.base.checked := rfl
              rw [hcc, hc] at this
              obtain ⟨a1, a2, a3, a4⟩ := this
              simp [a1, a2, a3, a4]; omega
            · have := deprecated_step x.base w (.writeAlias v)
              simp only [descriptorCalls] at this
              have hcc : (asDeprecated x.base false).checked = x.base.checked := rfl
              rw [hcc, hc] at this
              obtain ⟨a1, a2, a3, a4⟩ := this
              simp [a1, a2, a3, a4]; omega
        · simp

def xCallsAlong (x : XCfg) : World → List XOp → List Nat
  | _, [] => []
  | w, op :: ops => xCalls x w op :: xCallsAlong x (xstep x w op).1 ops

/-- `deprecated_same` for mixed sequences: through every helper call too, `DeprecatedAlias` and `Alias`
go through the same states and results; the deprecated one warns once per descriptor call, the plain one never. -/
theorem x_deprecated_same (x : XCfg) (ops : List XOp) (w : World) :
    (xrun (asDeprecatedX x true) w ops).1 = (xrun (asDeprecatedX x false) w ops).1
    ∧ (xrun (asDeprecatedX x true) w ops).2.map (·.res) = (xrun (asDeprecatedX x false) w ops).2.map (·.res)
    ∧ (xrun (asDeprecatedX x true) w ops).2.map (·.warns) = xCallsAlong (asDeprecatedX x false) w ops
    ∧ (xrun (asDeprecatedX x false) w ops).2.map (·.warns) = ops.map fun _ => 0 := by
  induction ops generalizing w with
  | nil => exact ⟨rfl, rfl, rfl, rfl⟩
  | cons op ops ih =>
    obtain ⟨h1, h2, h3, h4⟩ := x_deprecated_step x w op
    simp only [xrun_cons, List.map_cons, xCallsAlong]
    rw [h1]
    obtain ⟨i1, i2, i3, i4⟩ := ih (xstep (asDeprecatedX x false) w op).1
    exact ⟨i1, by rw [h2, i2], by rw [h3, i3], by rw [h4, i4]⟩

example :
    let x : XCfg := ⟨⟨[.attr "d", .item "k"], false, none, none, true, false, true⟩, some (.obj ["x"] [])⟩
    let w : World := ⟨⟨.obj ["x"] [("d", .dict [("k", .obj ["x"] [("x", .int 1)])])], none⟩, [], 0⟩
    (xrun x w [.helper (.write false (.updA none [("x", .int 5)])), .helper (.write true (.updA none [("x", .int 6)])),
               .helper (.write true (.withA none [("x", .int 7)])), .helper (.reset true)]).2.map (·.warns) = [3, 2, 1, 1] := by rfl

end SpecVerif.Props.C18
