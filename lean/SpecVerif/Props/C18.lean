import SpecVerif.Proofs.C18
/-!
# C18 — Alias mirrors its target until overridden; passthrough writes reach the target

Property theorems only (helper lemmas are in `Proofs/C18.lean`). Every theorem is
about the executable definitions of `Model/C18.lean`, which the correspondence
check runs against `spec_classes.types.alias.Alias` / `DeprecatedAlias` on plain
and on spec classes.

Quantification: any configuration `c : Cfg` (any path, passthrough flag, any
transform *function* including raising ones, any fallback, deprecated or not,
type-checked or not, plain or spec host), any host tree, any override, any
operation, any operation sequence of any length (induction over `run`).
-/
set_option linter.unusedSectionVars false
set_option linter.unusedSimpArgs false
set_option linter.unusedVariables false
namespace SpecVerif.Props.C18
open SpecVerif.Py SpecVerif.C18

/-! ## Specification side: what the property text says -/

/-- The live view of the target: its current value under the optional
transform; a *missing* target (`AttributeError` or `KeyError` anywhere on the path)
gives the fallback copy, or `AttributeError` when there is no fallback. -/
def liveView (c : Cfg) (host : Val) : GetRes :=
  match lookup host c.path with
  | .ok v =>
    match c.transform with
    | none => .val v
    | some f =>
      match f v with
      | .ok w => .val w
      | .error .attributeError => fallbackOr c
      | .error e => .err e
  | .error .attributeError => fallbackOr c
  | .error .keyError => fallbackOr c
  | .error e => .err e

/-- the instance has no local value that a read would see -/
def NoLocal (c : Cfg) (s : Inst) : Prop := c.passthrough = true ∨ s.override = none

/-! ## mirrors -/

/-- An alias that has not been assigned locally reads as the live view of its target. -/
theorem mirrors (c : Cfg) (s : Inst) (h : NoLocal c s) : aliasGet c s = liveView c s.host := by
  have hov : (if c.passthrough then none else s.override) = none := by
    rcases h with h | h <;> simp [h]
  unfold aliasGet liveView lookupConv
  rw [hov]
  cases hl : lookup s.host c.path with
  | ok v => rfl
  | error e => cases e <;> simp [conv]

/-- … without transform: the very value of the target. -/
theorem mirrors_plain (c : Cfg) (s : Inst) (h : NoLocal c s) {v : Val}
    (ht : c.transform = none) (hl : lookup s.host c.path = .ok v) : aliasGet c s = .val v := by
  rw [mirrors c s h]; simp [liveView, hl, ht]

/-- … with a transform: the transformed value of the target. -/
theorem mirrors_transformed (c : Cfg) (s : Inst) (h : NoLocal c s) {v w : Val} {f : Val → Except Err Val}
    (ht : c.transform = some f) (hl : lookup s.host c.path = .ok v) (hf : f v = .ok w) :
    aliasGet c s = .val w := by
  rw [mirrors c s h]; simp [liveView, hl, ht, hf]

example : aliasGet ⟨[.attr "sub", .item "k"], false, none, none, false, false, false⟩
    ⟨.obj [] [("sub", .dict [("k", .int 3)])], none⟩ = .val (.int 3) := rfl

/-! ## missing target: fallback copy or AttributeError -/

/-- A missing target without fallback raises `AttributeError` (also when the path
failed with `KeyError`). -/
theorem missing_raises (c : Cfg) (s : Inst) (h : NoLocal c s) (hm : Missing (lookup s.host c.path))
    (hf : c.fallback = none) : aliasGet c s = .err .attributeError := by
  rw [mirrors c s h]
  rcases hm with hm | hm <;> simp [liveView, hm, fallbackOr, hf]

/-- A missing target with a (mutable) fallback: every read hands out a *new*
copy — ids `n+1`, `n+2`, … — equal to the fallback, and changes nothing else. -/
theorem fallback_fresh (c : Cfg) (w : World) (h : NoLocal c w.cur) (hm : Missing (lookup w.cur.host c.path))
    {fb : Val} (hf : c.fallback = some fb) (hmut : fb.isAtomic = false) :
    step c w .readAlias = ({ w with fresh := w.fresh + 1 }, ⟨.fresh fb (w.fresh + 1), warnsOf c⟩)
    ∧ (step c (step c w .readAlias).1 .readAlias).2.res = .fresh fb (w.fresh + 2) := by
  have hg : ∀ w' : World, w'.cur = w.cur → aliasGet c w'.cur = .fresh fb := by
    intro w' hw
    rw [hw, mirrors c _ h]
    rcases hm with hm | hm <;> simp [liveView, hm, fallbackOr, hf, hmut]
  have h1 : step c w .readAlias = ({ w with fresh := w.fresh + 1 }, ⟨.fresh fb (w.fresh + 1), warnsOf c⟩) := by
    simp [step, hg w rfl]
  refine ⟨h1, ?_⟩
  rw [h1]
  simp [step, hg { w with fresh := w.fresh + 1 } rfl]

/-- An immutable fallback (int, str) is returned as it is (`protect_via_deepcopy`). -/
theorem fallback_atomic (c : Cfg) (s : Inst) (h : NoLocal c s) (hm : Missing (lookup s.host c.path))
    {fb : Val} (hf : c.fallback = some fb) (ha : fb.isAtomic = true) : aliasGet c s = .val fb := by
  rw [mirrors c s h]
  rcases hm with hm | hm <;> simp [liveView, hm, fallbackOr, hf, ha]

example : (step ⟨[.attr "x"], false, none, some (.lst [7, 8]), false, false, false⟩
    ⟨⟨.obj [] [], none⟩, [], 0⟩ .readAlias).2.res = .fresh (.lst [7, 8]) 1 := rfl

/-! ## local assignment shadows; deletion restores -/

/-- `instance.alias = v` on a non-passthrough alias (well-typed `v` when the
attribute is type-checked): the host is untouched, and the alias then reads `v`. -/
theorem shadow (c : Cfg) (s : Inst) (v : Val) (hp : c.passthrough = false)
    (ht : c.checked = true → v.isInt = true) :
    instSet c s v = (.ok ⟨s.host, some v⟩, warnsOf c) ∧ aliasGet c ⟨s.host, some v⟩ = .val v := by
  have hc : (c.checked && !v.isInt) = false := by
    cases hcc : c.checked <;> simp
    exact ht hcc
  constructor
  · simp [instSet, hc, aliasSet, hp]
  · simp [aliasGet, hp]

/-- an ill-typed value never reaches the descriptor of a type-checked alias: `TypeError`, nothing changes, no warning -/
theorem shadow_type_checked (c : Cfg) (s : Inst) (v : Val) (hc : c.checked = true) (hv : v.isInt = false) :
    instSet c s v = (.error .typeError, 0) := by simp [instSet, hc, hv]

/-- Deleting the local value restores the live view (host untouched); a second delete raises `AttributeError`. -/
theorem delete_restores (c : Cfg) (s : Inst) (v : Val) (hp : c.passthrough = false) (ho : s.override = some v) :
    aliasDelete c s = .ok ⟨s.host, none⟩
    ∧ aliasGet c ⟨s.host, none⟩ = liveView c s.host
    ∧ aliasDelete c ⟨s.host, none⟩ = .error .attributeError := by
  refine ⟨by simp [aliasDelete, hp, ho], mirrors c _ (Or.inr rfl), by simp [aliasDelete, hp]⟩

example : aliasDelete ⟨[.attr "x"], false, none, none, false, false, false⟩ ⟨.obj [] [("x", .int 1)], some (.int 5)⟩
    = .ok ⟨.obj [] [("x", .int 1)], none⟩ := rfl

/-! ## the two variables evolve independently (non-passthrough) / the override never appears (passthrough) -/

/-- evolution of the local override: a function of the override and the operation only -/
def ovStep (c : Cfg) (ov : Option Val) : Op → Option Val
  | .writeAlias v => if c.checked && !v.isInt then ov else some v
  | .cowWithAlias v => if c.checked && !v.isInt then ov else some v
  | .delAlias => none
  | .cowResetAlias => none
  | _ => ov

def orSelf (h : Val) : Except Err Val → Val
  | .ok h' => h'
  | .error _ => h

/-- evolution of the host tree: a function of the tree and the operation only -/
def hostStep (c : Cfg) (h : Val) : Op → Val
  | .writeTarget v => orSelf h (assign h c.path v)
  | .cowWriteTarget v => orSelf h (assign h c.path v)
  | .delTarget => orSelf h (remove h c.path)
  | .cowDelTarget => orSelf h (remove h c.path)
  | .delPrefix => match c.path with
    | [] => h
    | s :: _ => orSelf h (dropSeg h s)
  | .setPrefix v => match c.path with
    | [] => h
    | s :: _ => orSelf h (storeSeg h s v)
  | _ => h

/-- Non-passthrough alias: one step is the product of a step of the host (which
ignores alias operations and the override) and a step of the override (which
ignores target operations and the host). -/
theorem two_variable_step (c : Cfg) (w : World) (op : Op) (hp : c.passthrough = false) :
    (step c w op).1.cur = ⟨hostStep c w.cur.host op, ovStep c w.cur.override op⟩ := by
  cases op <;> simp only [step, hostStep, ovStep, instSet, aliasSet, aliasDelete, hp]
  case readAlias => cases aliasGet c w.cur <;> rfl
  case writeAlias v => cases hc : (c.checked && !v.isInt) <;> simp [hc]
  case cowWithAlias v => cases hc : (c.checked && !v.isInt) <;> simp [hc]
  case delAlias => cases ho : w.cur.override <;> simp [ho] <;> (try rw [← ho])
  case cowResetAlias => cases ho : w.cur.override <;> simp [ho] <;> (try rw [← ho])
  case writeTarget v => cases assign w.cur.host c.path v <;> simp [orSelf]
  case cowWriteTarget v => cases assign w.cur.host c.path v <;> simp [orSelf]
  case delTarget => cases remove w.cur.host c.path <;> simp [orSelf]
  case cowDelTarget => cases remove w.cur.host c.path <;> simp [orSelf]
  case delPrefix =>
    cases c.path with
    | nil => rfl
    | cons s r => simp only []; cases dropSeg w.cur.host s <;> simp [orSelf]
  case setPrefix v =>
    cases c.path with
    | nil => rfl
    | cons s r => simp only []; cases storeSeg w.cur.host s v <;> simp [orSelf]

/-- The two-variable state machine, for every operation sequence: the final host
is the fold of the host steps, the final override the fold of the override steps. -/
theorem two_variable (c : Cfg) (hp : c.passthrough = false) (ops : List Op) (w : World) :
    (run c w ops).1.cur = ⟨ops.foldl (hostStep c) w.cur.host, ops.foldl (ovStep c) w.cur.override⟩ := by
  induction ops generalizing w with
  | nil => rfl
  | cons op ops ih =>
    rw [run_cons]
    simp only [List.foldl_cons]
    rw [ih, two_variable_step c w op hp]

/-- operations that touch the local override -/
def isOvOp : Op → Bool
  | .writeAlias _ | .cowWithAlias _ | .delAlias | .cowResetAlias => true
  | _ => false

/-- A local value is read back unchanged after ANY sequence of operations on the
target (writes, deletes, prefix removal, deepcopy, copy-on-write helpers on the target). -/
theorem shadow_persists (c : Cfg) (hp : c.passthrough = false) (ops : List Op)
    (hops : ∀ op ∈ ops, isOvOp op = false) (w : World) (v : Val) (ho : w.cur.override = some v) :
    (run c w ops).1.cur.override = some v ∧ aliasGet c (run c w ops).1.cur = .val v := by
  have h1 : (run c w ops).1.cur.override = some v := by
    rw [two_variable c hp]
    simp only
    induction ops generalizing w with
    | nil => exact ho
    | cons op ops ih =>
      have hop := hops op (by simp)
      have : ovStep c w.cur.override op = w.cur.override := by
        cases op <;> simp [isOvOp] at hop <;> rfl
      simp only [List.foldl_cons, this]
      exact ih (fun o ho' => hops o (by simp [ho'])) w ho
  exact ⟨h1, by simp [aliasGet, hp, h1]⟩

/-- Operations on the alias never modify the host of a non-passthrough alias, for any sequence. -/
theorem alias_ops_leave_host (c : Cfg) (hp : c.passthrough = false) (ops : List Op)
    (hops : ∀ op ∈ ops, isOvOp op = true ∨ op = .readAlias) (w : World) :
    (run c w ops).1.cur.host = w.cur.host := by
  rw [two_variable c hp]
  simp only
  induction ops generalizing w with
  | nil => rfl
  | cons op ops ih =>
    have : hostStep c w.cur.host op = w.cur.host := by
      rcases hops op (by simp) with h | h
      · cases op <;> simp [isOvOp] at h <;> rfl
      · subst h; rfl
    simp only [List.foldl_cons, this]
    exact ih (fun o ho' => hops o (by simp [ho'])) w

/-- A passthrough alias never acquires a local override: one step … -/
theorem passthrough_step_override (c : Cfg) (w : World) (op : Op) (hp : c.passthrough = true) :
    (step c w op).1.cur.override = w.cur.override := by
  cases op <;> simp only [step, instSet, aliasSet, aliasDelete, hp]
  case readAlias => cases aliasGet c w.cur <;> rfl
  case writeAlias v =>
    cases hc : (c.checked && !v.isInt) <;> simp [hc]
    cases lookupConv w.cur.host c.path.dropLast <;> simp
    cases assign w.cur.host c.path v <;> simp
  case cowWithAlias v =>
    cases hc : (c.checked && !v.isInt) <;> simp [hc]
    cases lookupConv w.cur.host c.path.dropLast <;> simp
    cases assign w.cur.host c.path v <;> simp
  case delAlias =>
    simp
    cases lookupConv w.cur.host c.path.dropLast <;> simp
    cases remove w.cur.host c.path <;> simp
  case cowResetAlias =>
    simp
    cases lookupConv w.cur.host c.path.dropLast <;> simp
    cases remove w.cur.host c.path <;> simp
  case writeTarget v => cases assign w.cur.host c.path v <;> simp
  case cowWriteTarget v => cases assign w.cur.host c.path v <;> simp
  case delTarget => cases remove w.cur.host c.path <;> simp
  case cowDelTarget => cases remove w.cur.host c.path <;> simp
  case delPrefix =>
    cases c.path with
    | nil => rfl
    | cons s r => simp only []; cases dropSeg w.cur.host s <;> simp
  case setPrefix v =>
    cases c.path with
    | nil => rfl
    | cons s r => simp only []; cases storeSeg w.cur.host s v <;> simp

/-- … and every operation sequence. -/
theorem passthrough_never_overrides (c : Cfg) (hp : c.passthrough = true) (ops : List Op) (w : World) :
    (run c w ops).1.cur.override = w.cur.override := by
  induction ops generalizing w with
  | nil => rfl
  | cons op ops ih => rw [run_cons]; simp only; rw [ih, passthrough_step_override c w op hp]

/-! ## passthrough: writes and deletes reach the target -/

/-- A passthrough write whose parent exists and accepts the value: the target now holds
`v`, no override appears, and the alias reads the live view of the new host. -/
theorem passthrough_rt (c : Cfg) (s : Inst) (v : Val) (hp : c.passthrough = true)
    {pre : List Seg} {last : Seg} {parent parent' : Val} (hpath : c.path = pre ++ [last])
    (hpre : lookup s.host pre = .ok parent) (hst : storeSeg parent last v = .ok parent') :
    ∃ h', aliasSet c s v = .ok ⟨h', s.override⟩
      ∧ lookup h' c.path = .ok v
      ∧ aliasGet c ⟨h', s.override⟩ = liveView c h'
      ∧ (c.transform = none → aliasGet c ⟨h', s.override⟩ = .val v) := by
  obtain ⟨h', hh'⟩ := modifyLast_of_prefix (f := fun parent s => storeSeg parent s v) hst pre s.host hpre
  have ha : assign s.host c.path v = .ok h' := by rw [hpath]; exact hh'
  have hl := lookup_assign_same ha
  refine ⟨h', ?_, hl, mirrors c _ (Or.inl hp), fun ht => mirrors_plain c _ (Or.inl hp) ht hl⟩
  have hd : c.path.dropLast = pre := by rw [hpath]; simp
  simp [aliasSet, hp, lookupConv, hd, hpre, ha]

/-- … conversely a passthrough write that succeeds is exactly `assign` on the host, and it never stores an override. -/
theorem passthrough_set_inv (c : Cfg) (s s' : Inst) (v : Val) (hp : c.passthrough = true)
    (h : aliasSet c s v = .ok s') : assign s.host c.path v = .ok s'.host ∧ s'.override = s.override := by
  simp only [aliasSet, hp, if_true] at h
  cases hl : lookupConv s.host c.path.dropLast with
  | error e => simp [hl] at h
  | ok x =>
    simp only [hl] at h
    cases ha : assign s.host c.path v with
    | error e => simp [ha] at h
    | ok h' => simp [ha] at h; subst h; exact ⟨rfl, rfl⟩

/-- … and when the prefix is missing (`AttributeError` or `KeyError` on the way) it raises `AttributeError`, changing nothing. -/
theorem passthrough_set_missing (c : Cfg) (s : Inst) (v : Val) (hp : c.passthrough = true)
    (hm : Missing (lookup s.host c.path.dropLast)) : aliasSet c s v = .error .attributeError := by
  rcases hm with hm | hm <;> simp [aliasSet, hp, lookupConv, hm, conv]

/-- A passthrough delete whose target exists removes it from the host: the target is
then missing, the override is untouched, and the alias reads the fallback copy or raises. -/
theorem passthrough_del (c : Cfg) (s : Inst) (hp : c.passthrough = true)
    {pre : List Seg} {last : Seg} {parent parent' : Val} (hpath : c.path = pre ++ [last])
    (hpre : lookup s.host pre = .ok parent) (hdr : dropSeg parent last = .ok parent') :
    ∃ h', aliasDelete c s = .ok ⟨h', s.override⟩
      ∧ Missing (lookup h' c.path)
      ∧ aliasGet c ⟨h', s.override⟩ = fallbackOr c := by
  obtain ⟨h', hh'⟩ := modifyLast_of_prefix (f := dropSeg) hdr pre s.host hpre
  have ha : remove s.host c.path = .ok h' := by rw [hpath]; exact hh'
  have hl := lookup_remove_same ha
  refine ⟨h', ?_, hl, ?_⟩
  · have hd : c.path.dropLast = pre := by rw [hpath]; simp
    simp [aliasDelete, hp, lookupConv, hd, hpre, ha]
  · rw [mirrors c _ (Or.inl hp)]
    rcases hl with hl | hl <;> simp [liveView, hl]

example : aliasSet ⟨[.attr "d", .item "k"], true, none, none, false, false, false⟩ ⟨.obj [] [("d", .dict [])], none⟩ (.int 4)
    = .ok ⟨.obj [] [("d", .dict [("k", .int 4)])], none⟩ := rfl
example : aliasDelete ⟨[.attr "d", .item "k"], true, none, none, false, false, false⟩ ⟨.obj [] [("d", .dict [("k", .int 4)])], none⟩
    = .ok ⟨.obj [] [("d", .dict [])], none⟩ := rfl

/-! ## lens laws of `lookup` / `assign` -/

/-- put-get -/
theorem lens_put_get {p : List Seg} {o o' v : Val} (h : assign o p v = .ok o') : lookup o' p = .ok v :=
  lookup_assign_same h

/-- get-put -/
theorem lens_get_put {p : List Seg} {o o' v : Val} (hl : lookup o p = .ok v) (h : assign o p v = .ok o') : o' = o :=
  assign_lookup_same p o o' v hl h

/-- put-put -/
theorem lens_put_put {p : List Seg} {o o1 v : Val} (w : Val) (h : assign o p v = .ok o1) :
    assign o1 p w = assign o p w :=
  assign_assign_same p o o1 v w h

/-- frame: a write is invisible along every path that parts ways with it (so are deletes) -/
theorem lens_frame {p q : List Seg} (hd : Diverge p q) {o o' v : Val} (h : assign o p v = .ok o') :
    lookup o' q = lookup o q := lookup_assign_diverge hd h

theorem lens_frame_remove {p q : List Seg} (hd : Diverge p q) {o o' : Val} (h : remove o p = .ok o') :
    lookup o' q = lookup o q := lookup_remove_diverge hd h

/-- The unrestricted commutation law (literal equality of the two results). -/
def LensCommuteFull : Prop :=
  ∀ (p q : List Seg) (o o1 o2 v w : Val), Diverge p q →
    assign o p v = .ok o1 → assign o q w = .ok o2 → assign o1 q w = assign o2 p v

/-- Writes at paths that part ways commute when one of the two targets exists
beforehand. (Otherwise both keys are new in one and the same map and the two results
differ in the insertion order of that map — as the two `__dict__`s do in Python;
`lens_commute_full_fails` is the witness, `lens_frame` + `lens_put_get` say that both
results hold both values and agree on every path that parts ways with the two.) -/
theorem lens_commute_partial {p q : List Seg} (hd : Diverge p q) {o o1 o2 : Val} (v w : Val)
    (hex : (∃ x, lookup o p = .ok x) ∨ (∃ y, lookup o q = .ok y))
    (h1 : assign o p v = .ok o1) (h2 : assign o q w = .ok o2) :
    assign o1 q w = assign o2 p v := assign_comm hd o o1 o2 v w hex h1 h2

/-- With no side condition at all: both orders of two writes at paths that part
ways succeed, both results hold both values, and both agree with the original on
every path that parts ways with the two (so they can differ in nothing but the
insertion order of a map). -/
theorem lens_commute_content {p q : List Seg} (hd : Diverge p q) {o o1 o2 : Val} (v w : Val)
    (h1 : assign o p v = .ok o1) (h2 : assign o q w = .ok o2) :
    ∃ r1 r2, assign o1 q w = .ok r1 ∧ assign o2 p v = .ok r2
      ∧ lookup r1 p = .ok v ∧ lookup r1 q = .ok w ∧ lookup r2 p = .ok v ∧ lookup r2 q = .ok w
      ∧ ∀ x, Diverge p x → Diverge q x → lookup r1 x = lookup o x ∧ lookup r2 x = lookup o x := by
  obtain ⟨r1, hr1⟩ := assign_ok_after_diverge hd o o1 o2 v w h1 h2
  obtain ⟨r2, hr2⟩ := assign_ok_after_diverge hd.symm o o2 o1 w v h2 h1
  refine ⟨r1, r2, hr1, hr2, ?_, lookup_assign_same hr1, lookup_assign_same hr2, ?_, ?_⟩
  · rw [lookup_assign_diverge hd.symm hr1]; exact lookup_assign_same h1
  · rw [lookup_assign_diverge hd hr2]; exact lookup_assign_same h2
  · intro x hpx hqx
    exact ⟨by rw [lookup_assign_diverge hqx hr1, lookup_assign_diverge hpx h1],
           by rw [lookup_assign_diverge hpx hr2, lookup_assign_diverge hqx h2]⟩

theorem lens_commute_full_fails : ¬ LensCommuteFull := by
  intro h
  have := h [.attr "a"] [.attr "b"] (.obj [] []) _ _ (.int 1) (.int 2) (.head _ _ (by decide)) rfl rfl
  simp [assign, modifyLast, storeSeg, fset] at this

example : Diverge [.attr "a", .item "k"] [.attr "a", .item "j", .attr "x"] := .cons _ (.head _ _ (by decide))

/-- non-vacuity of `lens_commute_partial`: a host, two diverging paths, one target present, both writes succeed -/
example : ∃ o o1 o2, (∃ x, lookup o [.attr "a", .item "k"] = .ok x)
    ∧ assign o [.attr "a", .item "k"] (.int 1) = .ok o1 ∧ assign o [.attr "a", .item "j"] (.int 2) = .ok o2 :=
  ⟨.obj [] [("a", .dict [("k", .int 0)])], _, _, ⟨_, rfl⟩, rfl, rfl⟩

/-- non-vacuity of `passthrough_rt` / `passthrough_del`: prefix present, parent accepts -/
example : ∃ (parent parent' : Val), lookup (.obj ["x"] [("sub", .obj ["x"] [])]) [.attr "sub"] = .ok parent
    ∧ storeSeg parent (.attr "x") (.int 3) = .ok parent' := ⟨_, _, rfl, rfl⟩
example : ∃ (parent parent' : Val), lookup (.obj [] [("d", .dict [("k", .int 1)])]) [.attr "d"] = .ok parent
    ∧ dropSeg parent (.item "k") = .ok parent' := ⟨_, _, rfl, rfl⟩
/-- … and a type-checked target refuses an ill-typed passthrough write -/
example : aliasSet ⟨[.attr "x"], true, none, none, false, false, true⟩ ⟨.obj ["x"] [], none⟩ (.str 0) = .error .typeError := rfl

/-- non-vacuity of `shadow_persists` / `two_variable`: target operations after a local assignment -/
example : (run ⟨[.attr "x"], false, none, none, false, false, false⟩ ⟨⟨.obj [] [("x", .int 1)], none⟩, [], 0⟩
    [.writeAlias (.int 9), .writeTarget (.int 2), .delTarget, .deepcopy, .readAlias, .delAlias, .readAlias]).2.map (·.res)
    = [.none, .none, .none, .none, .val (.int 9), .none, .err .attributeError] := rfl

/-- non-vacuity of `missing_raises`: a `KeyError` on the path surfaces as `AttributeError` -/
example : lookup (.obj [] [("d", .dict [])]) [.attr "d", .item "k"] = .error .keyError
    ∧ aliasGet ⟨[.attr "d", .item "k"], false, none, none, false, false, false⟩ ⟨.obj [] [("d", .dict [])], none⟩
      = .err .attributeError := ⟨rfl, rfl⟩

/-! ## DeprecatedAlias = Alias + one warning per descriptor call -/

def asDeprecated (c : Cfg) (b : Bool) : Cfg := { c with deprecated := b }

/-- how often an operation runs a method of the descriptor (`__get__`, `__set__`, `__delete__`):
once per access of the alias; not at all when the type check of the managed attribute refuses
the value first; twice for a read that ends in `AttributeError` on a spec class (CPython
calls the class's `__getattr__`, which spec classes route back to `__getattribute__`) -/
def descriptorCalls (c : Cfg) (w : World) : Op → Nat
  | .readAlias => match aliasGet c w.cur with
    | .err e => readAttempts c e
    | _ => 1
  | .writeAlias v => if c.checked && !v.isInt then 0 else 1
  | .cowWithAlias v => if c.checked && !v.isInt then 0 else 1
  | .delAlias => 1
  | .cowResetAlias => 1
  | _ => 0

theorem deprecated_step (c : Cfg) (w : World) (op : Op) :
    (step (asDeprecated c true) w op).1 = (step (asDeprecated c false) w op).1
    ∧ (step (asDeprecated c true) w op).2.res = (step (asDeprecated c false) w op).2.res
    ∧ (step (asDeprecated c true) w op).2.warns = descriptorCalls (asDeprecated c false) w op
    ∧ (step (asDeprecated c false) w op).2.warns = 0 := by
  have hg : ∀ b, aliasGet (asDeprecated c b) w.cur = aliasGet c w.cur := fun _ => rfl
  have hs : ∀ b v, aliasSet (asDeprecated c b) w.cur v = aliasSet c w.cur v := fun _ _ => rfl
  have hd : ∀ b, aliasDelete (asDeprecated c b) w.cur = aliasDelete c w.cur := fun _ => rfl
  have hr : ∀ b e, readAttempts (asDeprecated c b) e = readAttempts c e := fun _ _ => rfl
  have hc : ∀ b, (asDeprecated c b).checked = c.checked := fun _ => rfl
  have hpth : ∀ b, (asDeprecated c b).path = c.path := fun _ => rfl
  have hw1 : warnsOf (asDeprecated c true) = 1 := rfl
  have hw0 : warnsOf (asDeprecated c false) = 0 := rfl
  cases op <;> simp only [step, descriptorCalls, instSet, hg, hs, hd, hr, hc, hpth, hw1, hw0]
  case readAlias => cases aliasGet c w.cur <;> simp
  case writeAlias v =>
    cases hcc : (c.checked && !v.isInt) <;> simp [hcc]
    cases aliasSet c w.cur v <;> simp
  case cowWithAlias v =>
    cases hcc : (c.checked && !v.isInt) <;> simp [hcc]
    cases aliasSet c w.cur v <;> simp
  case delAlias => cases aliasDelete c w.cur <;> simp
  case cowResetAlias => cases aliasDelete c w.cur <;> simp
  case readTarget => simp
  case deepcopy => simp
  case writeTarget v => cases assign w.cur.host c.path v <;> simp
  case cowWriteTarget v => cases assign w.cur.host c.path v <;> simp
  case delTarget => cases remove w.cur.host c.path <;> simp
  case cowDelTarget => cases remove w.cur.host c.path <;> simp
  case delPrefix =>
    cases c.path with
    | nil => simp
    | cons s r => simp only []; cases dropSeg w.cur.host s <;> simp
  case setPrefix v =>
    cases c.path with
    | nil => simp
    | cons s r => simp only []; cases storeSeg w.cur.host s v <;> simp

/-- descriptor calls along a run -/
def callsAlong (c : Cfg) : World → List Op → List Nat
  | _, [] => []
  | w, op :: ops => descriptorCalls c w op :: callsAlong c (step c w op).1 ops

/-- For every configuration and every operation sequence, `DeprecatedAlias` and
`Alias` go through the same states and return the same results; the deprecated one
emits exactly one warning per descriptor call, the plain one none. -/
theorem deprecated_same (c : Cfg) (ops : List Op) (w : World) :
    (run (asDeprecated c true) w ops).1 = (run (asDeprecated c false) w ops).1
    ∧ (run (asDeprecated c true) w ops).2.map (·.res) = (run (asDeprecated c false) w ops).2.map (·.res)
    ∧ (run (asDeprecated c true) w ops).2.map (·.warns) = callsAlong (asDeprecated c false) w ops
    ∧ (run (asDeprecated c false) w ops).2.map (·.warns) = ops.map fun _ => 0 := by
  induction ops generalizing w with
  | nil => exact ⟨rfl, rfl, rfl, rfl⟩
  | cons op ops ih =>
    obtain ⟨h1, h2, h3, h4⟩ := deprecated_step c w op
    simp only [run_cons, List.map_cons, callsAlong]
    rw [h1]
    obtain ⟨i1, i2, i3, i4⟩ := ih (step (asDeprecated c false) w op).1
    exact ⟨i1, by rw [h2, i2], by rw [h3, i3], by rw [h4, i4]⟩

example : (run ⟨[.attr "x"], true, none, none, true, false, false⟩ ⟨⟨.obj [] [("x", .int 1)], none⟩, [], 0⟩
    [.readAlias, .writeAlias (.int 2), .readTarget, .delAlias]).2.map (·.warns) = [1, 1, 0, 1] := rfl

/-! ## copies: deepcopy and copy-on-write helpers leave every earlier instance alone -/

/-- `deepcopy`: the copy reads like the original, which is kept as it was. -/
theorem copy_carries (c : Cfg) (w : World) :
    (step c w .deepcopy).1.cur = w.cur
    ∧ (step c w .deepcopy).1.olds = w.cur :: w.olds
    ∧ aliasGet c (step c w .deepcopy).1.cur = aliasGet c w.cur := ⟨rfl, rfl, rfl⟩

theorem step_olds (c : Cfg) (w : World) (op : Op) :
    (step c w op).1.olds = w.olds ∨ (step c w op).1.olds = w.cur :: w.olds := by
  cases op <;> simp only [step]
  case readAlias => cases aliasGet c w.cur <;> simp
  case writeAlias v => rcases instSet c w.cur v with ⟨r | r, n⟩ <;> simp
  case cowWithAlias v => rcases instSet c w.cur v with ⟨r | r, n⟩ <;> simp
  case delAlias => cases aliasDelete c w.cur <;> simp
  case cowResetAlias => cases aliasDelete c w.cur <;> simp
  case readTarget => simp
  case deepcopy => simp
  case writeTarget v => cases assign w.cur.host c.path v <;> simp
  case cowWriteTarget v => cases assign w.cur.host c.path v <;> simp
  case delTarget => cases remove w.cur.host c.path <;> simp
  case cowDelTarget => cases remove w.cur.host c.path <;> simp
  case delPrefix =>
    cases c.path with
    | nil => simp
    | cons s r => simp only []; cases dropSeg w.cur.host s <;> simp
  case setPrefix v =>
    cases c.path with
    | nil => simp
    | cons s r => simp only []; cases storeSeg w.cur.host s v <;> simp

/-- Whatever is done afterwards — any operation sequence — the instances that existed
before (originals of copies and of copy-on-write helpers) are still there, unchanged. -/
theorem olds_frame (c : Cfg) (ops : List Op) (w : World) :
    ∃ new, (run c w ops).1.olds = new ++ w.olds := by
  induction ops generalizing w with
  | nil => exact ⟨[], rfl⟩
  | cons op ops ih =>
    rw [run_cons]
    obtain ⟨new, hn⟩ := ih (step c w op).1
    rcases step_olds c w op with h | h
    · exact ⟨new, by simp only; rw [hn, h]⟩
    · exact ⟨new ++ [w.cur], by simp only; rw [hn, h]; simp⟩

/-- A copy-on-write helper is the in-place operation performed on a copy: same
result, same new state; on success the receiver is kept (unchanged) among the
earlier instances, on failure nothing at all happens. -/
theorem cow_is_copy_then_write (c : Cfg) (w : World) :
    (∀ v, (step c w (.cowWithAlias v)).1.cur = (step c w (.writeAlias v)).1.cur
        ∧ (step c w (.cowWithAlias v)).2 = (step c w (.writeAlias v)).2)
    ∧ ((step c w .cowResetAlias).1.cur = (step c w .delAlias).1.cur
        ∧ (step c w .cowResetAlias).2 = (step c w .delAlias).2)
    ∧ (∀ v, (step c w (.cowWriteTarget v)).1.cur = (step c w (.writeTarget v)).1.cur
        ∧ (step c w (.cowWriteTarget v)).2 = (step c w (.writeTarget v)).2)
    ∧ ((step c w .cowDelTarget).1.cur = (step c w .delTarget).1.cur
        ∧ (step c w .cowDelTarget).2 = (step c w .delTarget).2) := by
  refine ⟨fun v => ?_, ?_, fun v => ?_, ?_⟩ <;> simp only [step]
  · rcases instSet c w.cur v with ⟨r | r, n⟩ <;> simp
  · cases aliasDelete c w.cur <;> simp
  · cases assign w.cur.host c.path v <;> simp
  · cases remove w.cur.host c.path <;> simp

/-! ## fallback copies are new every time, along any run -/

def freshIds : List Out → List Nat
  | [] => []
  | o :: os => match o.res with
    | .fresh _ id => id :: freshIds os
    | _ => freshIds os

theorem step_fresh (c : Cfg) (w : World) (op : Op) :
    ((step c w op).1.fresh = w.fresh ∧ ∀ v id, (step c w op).2.res ≠ .fresh v id)
    ∨ ((step c w op).1.fresh = w.fresh + 1 ∧ ∃ v, (step c w op).2.res = .fresh v (w.fresh + 1)) := by
  cases op <;> simp only [step]
  case readAlias => cases aliasGet c w.cur <;> simp
  case writeAlias v => rcases instSet c w.cur v with ⟨r | r, n⟩ <;> simp
  case cowWithAlias v => rcases instSet c w.cur v with ⟨r | r, n⟩ <;> simp
  case delAlias => cases aliasDelete c w.cur <;> simp
  case cowResetAlias => cases aliasDelete c w.cur <;> simp
  case readTarget => cases lookup w.cur.host c.path <;> simp [resOf]
  case deepcopy => simp
  case writeTarget v => cases assign w.cur.host c.path v <;> simp
  case cowWriteTarget v => cases assign w.cur.host c.path v <;> simp
  case delTarget => cases remove w.cur.host c.path <;> simp
  case cowDelTarget => cases remove w.cur.host c.path <;> simp
  case delPrefix =>
    cases c.path with
    | nil => simp
    | cons s r => simp only []; cases dropSeg w.cur.host s <;> simp
  case setPrefix v =>
    cases c.path with
    | nil => simp
    | cons s r => simp only []; cases storeSeg w.cur.host s v <;> simp

/-- Along any run the identities of the fallback copies handed out are strictly
increasing (hence pairwise distinct), all newer than anything handed out before. -/
theorem fresh_ids_increase (c : Cfg) (ops : List Op) (w : World) :
    w.fresh ≤ (run c w ops).1.fresh
    ∧ (∀ id ∈ freshIds (run c w ops).2, w.fresh < id ∧ id ≤ (run c w ops).1.fresh)
    ∧ (freshIds (run c w ops).2).Pairwise (· < ·) := by
  induction ops generalizing w with
  | nil => simp [run, freshIds]
  | cons op ops ih =>
    rw [run_cons]
    obtain ⟨i1, i2, i3⟩ := ih (step c w op).1
    rcases step_fresh c w op with ⟨hf, hno⟩ | ⟨hf, v, hv⟩
    · have hfi : freshIds ((step c w op).2 :: (run c (step c w op).1 ops).2) = freshIds (run c (step c w op).1 ops).2 := by
        cases hres : (step c w op).2.res with
        | fresh v id => exact absurd hres (hno v id)
        | none => simp [freshIds, hres]
        | val v => simp [freshIds, hres]
        | err e => simp [freshIds, hres]
      simp only [hfi]
      rw [hf] at i1 i2
      exact ⟨i1, i2, i3⟩
    · have hfi : freshIds ((step c w op).2 :: (run c (step c w op).1 ops).2) = (w.fresh + 1) :: freshIds (run c (step c w op).1 ops).2 := by
        simp only [freshIds, hv]
      simp only [hfi]
      rw [hf] at i1 i2
      refine ⟨by omega, ?_, ?_⟩
      · intro id hid
        rcases List.mem_cons.1 hid with h | h
        · subst h; omega
        · have := i2 id h; omega
      · refine List.pairwise_cons.2 ⟨?_, i3⟩
        intro id hid
        have := i2 id hid; omega

/-! ## the path parser and the renderer are inverse to each other -/

/-- render ∘ parse = id on accepted strings: the matches of an accepted path, joined,
are the path (this *is* the join check of `_attr_path`). -/
theorem path_roundtrip_render {s : List Char} {ts : List Tok} (h : parsePath s = .ok ts) :
    renderToks ts = s := by
  rw [parsePath_eq] at h
  cases ht : tokenize s with
  | none => simp [ht] at h
  | some ts' => simp [ht] at h; subst h; exact tokenize_sound ht

/-- parse ∘ render = id on canonical token lists … -/
theorem path_roundtrip_parse {ts : List Tok} (h : CanonToks true false ts) :
    parsePath (renderToks ts) = .ok ts := by
  rw [parsePath_eq, tokenize_complete h]

/-- … and the canonical token lists are exactly what the parser returns: accepted
strings and canonical token lists are in bijection. -/
theorem path_accepted_iff (s : List Char) (ts : List Tok) :
    parsePath s = .ok ts ↔ (CanonToks true false ts ∧ renderToks ts = s) := by
  constructor
  · intro h
    refine ⟨?_, path_roundtrip_render h⟩
    rw [parsePath_eq] at h
    cases ht : tokenize s with
    | none => simp [ht] at h
    | some ts' => simp [ht] at h; subst h; exact tokenize_canon ht
  · rintro ⟨hc, rfl⟩; exact path_roundtrip_parse hc

/-- a string is rejected (`ValueError`) iff it is the rendering of no canonical token list -/
theorem path_rejected_iff (s : List Char) :
    parsePath s = .error .valueError ↔ ¬ ∃ ts, CanonToks true false ts ∧ renderToks ts = s := by
  constructor
  · rintro h ⟨ts, hts⟩
    rw [(path_accepted_iff s ts).2 hts] at h; cases h
  · intro h
    rw [parsePath_eq]
    cases ht : tokenize s with
    | none => rfl
    | some ts =>
      exfalso; apply h
      have : parsePath s = .ok ts := by rw [parsePath_eq, ht]
      exact ⟨ts, (path_accepted_iff s ts).1 this⟩

/-- Segment level: every segment list whose attribute names are `\w+` (keys are
arbitrary) has a canonical path string `a.b["k"].c`; parsing it gives back exactly
these accesses. -/
theorem path_roundtrip_segs {p : List Seg} (h : CanonSegs p) :
    parsePath (renderSegs p) = .ok (segsToks true p) ∧ toksSegs (segsToks true p) = some p :=
  ⟨path_roundtrip_parse (canon_segsToks p true false h (fun _ => rfl)), toksSegs_segsToks p true⟩

/-- the identifier shortcut of `_attr_path` is redundant (ASCII) -/
theorem identifier_shortcut {s : List Char} (h : isIdentifier s = true) :
    tokenize s = some [⟨false, .word s⟩] := tokenize_identifier h

example : parsePath "a[\"k.j\"].b".toList
    = .ok [⟨false, .word ['a']⟩, ⟨false, .key .dq ['k', '.', 'j']⟩, ⟨true, .word ['b']⟩] := by rfl
example : parsePath "a.[\"k\"]".toList = .error .valueError := by rfl
example : parsePath "['k']x".toList = .ok [⟨false, .key .sq ['k']⟩, ⟨false, .word ['x']⟩] := by rfl
example : renderSegs [.attr "a", .item "k\"q", .attr "b"] = "a[\"k\\\"q\"].b".toList := by decide
example : CanonSegs [.attr "a", .item "k.j", .attr "b1"] :=
  ⟨⟨by decide, by decide⟩, ⟨by decide, by decide⟩, trivial⟩

end SpecVerif.Props.C18
