import SpecVerif.Proofs.C19
import SpecVerif.Proofs.C19Hier
/-!
# C19 — lazy bootstrapping equals eager bootstrapping under every thread interleaving

Property theorems only (helper lemmas: `Proofs/C19.lean`). Everything is about the
executable definitions of `Model/C19.lean`, which the correspondence check replays
against `spec_classes/spec_class.py` under explicit thread schedules.

Quantification: any class body `b` (any number of `Attr(...)` / `dataclasses.field(...)`
/ plain declarations, any list of method names, user-defined names, `__new__`
defined or inherited), any assignment of first-use programs to threads
(`trig : Nat → Trigger`, any number of threads; instantiation directly, through a plain
subclass, or through a subclass with its own `__new__` that does or does not hand the
arguments on), any schedule (`Reachable`: any
interleaving of enabled steps).
-/
set_option linter.unusedSectionVars false
set_option linter.unusedVariables false
namespace SpecVerif.Props.C19
open SpecVerif.C19

abbrev Inv := SpecVerif.C19.Inv

theorem inv_init (b : Body) (trig : Nat → Trigger) : Inv b trig (Config.init b) :=
  SpecVerif.C19.inv_init b trig

theorem inv_step {b : Body} {trig : Nat → Trigger} {c c' : Config} {l : Label} (h : Inv b trig c) (t : Nat)
    (hs : step b trig c t = some (c', l)) : Inv b trig c' := inv_step' h t hs

theorem inv_reachable {b : Body} {trig : Nat → Trigger} {c : Config} (h : Reachable b trig c) :
    Inv b trig c := by
  induction h with
  | init => exact SpecVerif.C19.inv_init b trig
  | step t _ hs ih => exact inv_step' ih t hs

/-- `runSched` (the executable semantics the driver uses) stays inside `Reachable`. -/
theorem runSched_reachable {b : Body} {trig : Nat → Trigger} {c : Config} (h : Reachable b trig c)
    (sched : List Nat) : Reachable b trig (runSched b trig c sched) := by
  induction sched generalizing c with
  | nil => exact h
  | cons t ts ih =>
    simp only [runSched]
    split
    · exact ih h
    · rename_i c' l hs; exact ih (Reachable.step t h hs)

/-- Under the lock and the re-check, the body of `bootstrap` is entered at most
once, whatever the number of threads and the schedule; while it runs the class is
exactly the sequential bootstrap's intermediate state. -/
theorem bootstrap_once {b : Body} {trig : Nat → Trigger} {c : Config} (h : Reachable b trig c) :
    c.boots ≤ 1 ∧ ∀ i k, (c.threads i).pc = .boot k → c.cls.core = (bootState b k).1 ∧ c.lock = some i := by
  have hi := inv_reachable h
  refine ⟨hi.boots_le, fun i k hk => ⟨(hi.bootProg i k hk).2.1, (hi.lockPc i).1 (by rw [hk]; rfl)⟩⟩

/-- Observers that instantiate (directly or through a subclass) never see anything
but the completely bootstrapped class: the wrapper re-synchronises on the lock. -/
theorem no_partial_view_partial {b : Body} {trig : Nat → Trigger} {c : Config} (h : Reachable b trig c)
    (i : Nat) (o : Obs) (hti : (trig i).isInst = true) (ho : (c.threads i).obs = some o) : o = eagerObs b :=
  (inv_reachable h).obsInst i o hti ho

/-- what the full statement of "no thread observes a partially initialised class" would be:
EVERY observer, also one that only reads `__spec_class__` / `__dataclass_fields__`, sees the
class of the sequential eager result. -/
def Obs.sameClass (o e : Obs) : Prop :=
  o.mdata = e.mdata ∧ o.fields = e.fields ∧ o.decls = e.decls ∧ o.methods = e.methods

def NoPartialView (b : Body) : Prop :=
  ∀ (trig : Nat → Trigger) (c : Config), Reachable b trig c →
    ∀ i o, (c.threads i).obs = some o → Obs.sameClass o (eagerObs b)

/-- When every started thread has finished (and at least one has), the class is the
sequential eager result, every instantiating thread has observed exactly that, and
the wrapper is gone if anybody instantiated — for any number of threads, any
triggers, any schedule. -/
theorem final_eq_eager {b : Body} {trig : Nat → Trigger} {c : Config} (h : Reachable b trig c)
    (hall : ∀ i, (c.threads i).pc = .done ∨ (c.threads i).pc = .start)
    (hsome : ∃ i, (c.threads i).pc = .done) :
    c.cls.core = eagerCore b
      ∧ (∀ i, (trig i).isInst = true → (c.threads i).pc = .done → (c.threads i).obs = some (eagerObs b))
      ∧ ((∃ i, (trig i).isInst = true ∧ (c.threads i).pc = .done) → c.cls.new = finalNew b)
      ∧ c.lock = none := by
  have hi := inv_reachable h
  obtain ⟨j, hj⟩ := hsome
  have nb : ∀ i, isBoot (c.threads i).pc = false := by
    intro i; rcases hall i with h1 | h1 <;> rw [h1] <;> rfl
  have hb : c.boots = 1 := hi.late j (by rw [hj]; rfl)
  refine ⟨?_, ?_, ?_, ?_⟩
  · rcases hi.phase nb with ⟨h0, _⟩ | ⟨_, he⟩
    · omega
    · exact he
  · intro i hti hdi
    have := hi.doneObs i hdi
    cases ho : (c.threads i).obs with
    | none => rw [ho] at this; cases this
    | some o => rw [hi.obsInst i o hti ho]
  · rintro ⟨i, hti, hdi⟩
    exact hi.swapped i (Or.inr (Or.inr ⟨hti, Or.inr hdi⟩))
  · cases hl : c.lock with
    | none => rfl
    | some t =>
      have := (hi.lockPc t).2 hl
      rcases hall t with h1 | h1 <;> rw [h1] at this <;> cases this

/-! ## which `__new__` bodies run -/

theorem logInv_reachable {b : Body} {trig : Nat → Trigger} {c : Config} (h : Reachable b trig c) :
    LogInv b trig c := by
  induction h with
  | init => exact logInv_init b trig
  | step t hr hs ih => exact logInv_step (inv_reachable hr) ih t hs

/-- Every finished program has run exactly the `__new__` bodies the eagerly bootstrapped class
runs for it, in the same order, each exactly once and with the same arguments: the subclass'
own `__new__` (when the class is used through one) once, then the class' own / its parent's /
`object.__new__` once — whichever thread bootstrapped, whatever the interleaving, and also for
the construction that removed the wrapper. (Programs that only read metadata run none.) -/
theorem new_chain_eq_eager {b : Body} {trig : Nat → Trigger} {c : Config} (h : Reachable b trig c)
    (i : Nat) (hd : (c.threads i).pc = .done) : c.news i = eagerNews b (trig i) := by
  rw [(logInv_reachable h).news i, hd]
  cases trig i <;> simp [expNews, eagerNews, past]

/-- …and at every moment of every run what has run so far is a prefix of that: no `__new__`
body ever runs twice or out of order, not even temporarily. -/
theorem new_chain_prefix {b : Body} {trig : Nat → Trigger} {c : Config} (h : Reachable b trig c)
    (i : Nat) : c.news i <+: eagerNews b (trig i) := by
  rw [(logInv_reachable h).news i]
  cases trig i <;> simp [expNews, eagerNews]
  · split <;> simp
  · split
    · simp
    · split <;> simp

/-- A single thread, whichever trigger it uses, always finishes (within
`|bootActs| + 14` steps) and leaves exactly the eager class behind; if it
instantiated, its instance was built from the eager class, the wrapper is gone, and
the `__new__` bodies that ran are those of the eager class. -/
theorem lazy_seq_eq_eager (b : Body) (trig : Nat → Trigger) (t : Nat) :
    let c := runSched b trig (Config.init b) (List.replicate ((bootActs b).length + 14) t)
    (c.threads t).pc = .done ∧ c.cls.core = eagerCore b ∧ c.boots = 1 ∧ c.lock = none
      ∧ c.news t = eagerNews b (trig t)
      ∧ ((trig t).isInst = true → (c.threads t).obs = some (eagerObs b) ∧ c.cls.new = finalNew b) := by
  intro c
  have hdone : (c.threads t).pc = .done :=
    run_alone t _ (Config.init b) (SpecVerif.C19.inv_init b trig) (fun _ _ => rfl) (by simp [Config.init, TState.init, rank])
  have hreach : Reachable b trig c := runSched_reachable Reachable.init _
  have hi := inv_reachable hreach
  have hothers : ∀ j, j ≠ t → (c.threads j).pc = .start := by
    -- only thread `t` ever moves
    have key : ∀ (sched : List Nat) (c0 : Config), (∀ x ∈ sched, x = t) →
        (∀ j, j ≠ t → (c0.threads j).pc = .start) →
        ∀ j, j ≠ t → ((runSched b trig c0 sched).threads j).pc = .start := by
      intro sched
      induction sched with
      | nil => intro c0 _ h0; exact h0
      | cons x xs ih =>
        intro c0 hx h0
        have hxt : x = t := hx x List.mem_cons_self
        subst hxt
        simp only [runSched]
        split
        · exact ih c0 (fun y hy => hx y (List.mem_cons_of_mem _ hy)) h0
        · rename_i c' l hs
          apply ih c' (fun y hy => hx y (List.mem_cons_of_mem _ hy))
          intro j hj
          rw [step_others x hs j hj]; exact h0 j hj
    exact key _ _ (fun x hx => (List.mem_replicate.1 hx).2) (fun _ _ => rfl)
  have hfin := final_eq_eager hreach
    (fun i => by
      by_cases hit : i = t
      · subst hit; exact Or.inl hdone
      · exact Or.inr (hothers i hit))
    ⟨t, hdone⟩
  refine ⟨hdone, hfin.1, hi.late t (by rw [hdone]; rfl), hfin.2.2.2, new_chain_eq_eager hreach t hdone, fun hti => ⟨hfin.2.1 t hti hdone, hfin.2.2.1 ⟨t, hti, hdone⟩⟩⟩

/-! ## witnesses -/

/-- a class with an `Attr(default_factory=..., repr=False)` and an `Attr(default=3, compare=False)` -/
def b0 : Body :=
  { decls := [.attr ⟨none, true, false, true⟩, .attr ⟨some 3, false, true, false⟩],
    methods := [1, 2, 3], userMethods := [2], origNew := false, parentNew := false }

/-- thread 0 instantiates, every other thread reads `__spec_class__` -/
def trig0 : Nat → Trigger := fun i => if i = 0 then .inst else .mdata

/-- KF-C19-early-publish: the full statement fails for observers that only read the
metadata. Thread 0 bootstraps up to and including `spec_cls.__spec_class__ = metadata`;
thread 1 then reads `__spec_class__`, gets the metadata without touching the lock, and
sees a class without `__dataclass_fields__` and without a single generated method. -/
theorem early_publish : ¬ NoPartialView b0 := by
  intro h
  have hr : Reachable b0 trig0 (runSched b0 trig0 (Config.init b0) [0,0,0,0,0,0,0,0,0,1,1]) :=
    runSched_reachable Reachable.init _
  have ho : ((runSched b0 trig0 (Config.init b0) [0,0,0,0,0,0,0,0,0,1,1]).threads 1).obs
      = some ⟨(eagerCore b0).mdata, none, (eagerCore b0).decls, [], .wrapper⟩ := by decide
  have := (h trig0 _ hr 1 _ ho).2.2.2
  revert this
  decide

/-- …but what such a reader gets is never *wrong*: in the witness the attribute
specifications it sees are already the final ones (only registration lags behind). -/
example : (((runSched b0 trig0 (Config.init b0) [0,0,0,0,0,0,0,0,0,1,1]).threads 1).obs.map (·.mdata))
    = some (eagerCore b0).mdata := by decide

open Legacy in
/-- D20, the protocol before the fix (no lock, no re-check): two threads instantiate;
thread 0 consumes the first declaration, thread 1 bootstraps completely (re-reading the
consumed declaration as a plain value), thread 0 finishes: the published metadata has
lost `compare=False` (and thread 1's view had lost the factory and `repr=False`). -/
theorem legacy_race :
    ∃ sched, (lrun b0 (LConfig.init b0 2) sched).core ≠ eagerCore b0
      ∧ (lrun b0 (LConfig.init b0 2) sched).threads.all (·.pc == .done) = true :=
  ⟨[0,0,0] ++ List.replicate 12 1 ++ List.replicate 12 0, by decide⟩

/-- a class with its own `__new__`, used through a subclass whose `__new__` calls
`super().__new__(cls)` without the arguments -/
def b1 : Body := { b0 with origNew := true }
def trig1 : Nat → Trigger := fun i => if i = 0 then .instSub false else .inst

/-- Why the wrapper must continue with `spec_cls.__new__` (the slot of the DECORATED class):
if its last statement looked `__new__` up on the class being instantiated, the first
construction through a subclass with its own `__new__` would run that `__new__` a second
time (`Wrong.step` = `step` with that one statement changed; thread 0 alone). -/
theorem cls_dispatch_runs_sub_twice :
    let c := Wrong.run b1 trig1 (Config.init b1) (List.replicate 30 0)
    (c.threads 0).pc = .done ∧ c.news 0 = [⟨.sub, true⟩, ⟨.sub, false⟩, ⟨.orig, false⟩]
      ∧ c.news 0 ≠ eagerNews b1 (trig1 0) := by decide

/-! ## the eager class can be stricter than the lazy one (KF-C19-lenient-synthesized-new) -/

/-- full statement: no program that the lazy class completes (all do: `lazy_seq_eq_eager`) makes
the eager class raise -/
def SameOutcome (b : Body) : Prop := ∀ tr : Trigger, eagerRaises b tr = false

/-- it holds for every class with a `__new__` of its own or of a parent… -/
theorem same_outcome_partial (b : Body) (h : b.origNew = true ∨ b.parentNew = true) : SameOutcome b := by
  intro tr
  cases tr with
  | instSub f =>
    cases f
    · rfl
    · rcases h with h | h
      · simp [eagerRaises, finalFn, h]
      · simp only [eagerRaises, finalFn, h]; split <;> simp
  | _ => rfl

/-- …and fails otherwise: on `b0` (no `__new__` anywhere) a subclass whose `__new__` hands the
arguments on constructs an instance through the lazy class (`[sub:1, synthesized:1]`, wrapper
replaced by the synthesized forwarder) while the eager class raises `TypeError` from `object.__new__`. -/
theorem lenient_synthesized_new :
    ¬ SameOutcome b0 ∧
    (let c := runSched b0 (fun _ => .instSub true) (Config.init b0) (List.replicate 30 0)
     (c.threads 0).pc = .done ∧ c.news 0 = [⟨.sub, true⟩, ⟨.synthesized, true⟩] ∧ c.cls.new = .synthesized) := by
  refine ⟨fun h => ?_, by decide⟩
  have := h (.instSub true)
  revert this
  decide

/-! ## non-vacuity -/

/-- first use through the subclass with its own `__new__`, a second thread instantiating the
class directly in between: the subclass' `__new__` ran once, the class' own once per construction,
without the arguments where the subclass did not hand them on -/
example :
    let c := runSched b1 trig1 (Config.init b1) ([0,0,0,0,0,1,1,1] ++ List.replicate 25 0 ++ List.replicate 12 1)
    (c.threads 0).pc = .done ∧ (c.threads 1).pc = .done ∧ c.boots = 1
      ∧ c.news 0 = [⟨.sub, true⟩, ⟨.orig, false⟩] ∧ c.news 1 = [⟨.orig, true⟩] := by decide

/-- two threads, an interleaving that makes the second one wait for the lock: both done,
one bootstrap, eager class, eager observation for the instantiating thread -/
example :
    let c := runSched b0 trig0 (Config.init b0) ([0,0,0,0,0,1,1,0,0,0,0,0,1] ++ List.replicate 13 0 ++ List.replicate 8 1)
    (c.threads 0).pc = .done ∧ (c.threads 1).pc = .done ∧ c.boots = 1
      ∧ c.cls = ⟨eagerCore b0, finalNew b0⟩ ∧ (c.threads 0).obs = some (eagerObs b0) := by decide

/-- the eager result of `b0` keeps the factory and the flags, consumes both declarations,
and registers the two names the user did not define -/
example : eagerCore b0 =
    ⟨[.plain none, .plain (some 3)],
     some [⟨none, true, false, true⟩, ⟨some 3, false, true, false⟩],
     some [⟨none, true, false, true⟩, ⟨some 3, false, true, false⟩], [1, 3]⟩ := by decide

/-! ## hierarchies: a lazily bootstrapped class with lazily bootstrapped ancestors

`Model/C19Hier.lean`: a single-inheritance chain of decorated classes `K0 <- K1 <- …` (any length, any
bodies: annotations, `attrs=` / `attrs_typed=` / `attrs_skip=`, class attributes that are `Attr(...)` /
`dataclasses.field(...)` declarations or plain values, overrides of inherited attributes), `Hier.boot chain k`
= a first use of class `k` (bootstraps the not yet bootstrapped ancestors first, root first, then reads
their annotations / class attributes / metadata), `Hier.eagerN chain m` = `bootstrap=True` on the first
`m` classes. Quantification: every chain, every sequence of first uses of any of its classes. -/

/-- A first use of class `k` of a hierarchy whose first `m` classes are bootstrapped already (eagerly, or
by earlier uses of them or of their subclasses) leaves exactly the hierarchy in which the first
`max m (k+1)` classes were bootstrapped eagerly: every ancestor that was still lazy is bootstrapped
before anything is read from it. -/
theorem hier_first_use (chain : List Hier.HBody) (m k : Nat) (hm : m ≤ chain.length) :
    Hier.boot chain k (Hier.eagerN chain m (Hier.initSt chain))
      = Hier.eagerN chain (max m (k + 1)) (Hier.initSt chain) :=
  Hier.boot_eagerN chain m k hm

/-- Whatever the sequence of first uses (of the class itself, of a subclass first, of a parent first, of
the same class repeatedly …), the hierarchy is the one in which a prefix of the chain — containing every
class that was used — has been bootstrapped eagerly and the rest is untouched. -/
theorem hier_any_trigger_order (chain : List Hier.HBody) (trigs : List Nat) (ht : ∀ k ∈ trigs, k < chain.length) :
    ∃ m, m ≤ chain.length ∧ (∀ k ∈ trigs, k < m) ∧
      Hier.runTrigs chain trigs (Hier.initSt chain) = Hier.eagerN chain m (Hier.initSt chain) := by
  obtain ⟨m, _, h2, h3, h4⟩ := Hier.runTrigs_eagerN chain trigs 0 (Nat.zero_le _) ht
  exact ⟨m, h2, h3, h4⟩

/-- Class by class: after any sequence of first uses every bootstrapped class (metadata, own
`__annotations__`, own class attributes, registered helpers) is EXACTLY the class of the sequential eager
result, every other class is exactly as written, every class that was used is bootstrapped, and so are
all ancestors of a bootstrapped class. -/
theorem hier_class_eq_eager (chain : List Hier.HBody) (trigs : List Nat) (ht : ∀ k ∈ trigs, k < chain.length)
    (j : Nat) :
    let st := Hier.runTrigs chain trigs (Hier.initSt chain)
    (Hier.booted st j = true → st[j]? = (Hier.eager chain)[j]?)
      ∧ (Hier.booted st j = false → st[j]? = (Hier.initSt chain)[j]?)
      ∧ (j ∈ trigs → Hier.booted st j = true)
      ∧ (Hier.booted st j = true → ∀ i, i ≤ j → Hier.booted st i = true) := by
  intro st
  obtain ⟨m, hm, hin, heq⟩ := hier_any_trigger_order chain trigs ht
  have hst : st = Hier.eagerN chain m (Hier.initSt chain) := heq
  have hlen : (Hier.initSt chain).length = chain.length := by simp [Hier.initSt]
  by_cases hj : j < m
  · have hb : Hier.booted st j = true := by
      rw [hst]; exact Hier.booted_eagerN_below chain m _ j (by omega) hj
    refine ⟨fun _ => ?_, fun h => (by rw [hb] at h; cases h), fun _ => hb, fun _ i hi => ?_⟩
    · rw [hst]
      have := Hier.eagerN_below chain m (chain.length - m) (Hier.initSt chain) j hj
      rw [show m + (chain.length - m) = chain.length by omega] at this
      exact this.symm
    · rw [hst]; exact Hier.booted_eagerN_below chain m _ i (by omega) (by omega)
  · have hb : Hier.booted st j = false := by
      rw [hst]; exact Hier.booted_eagerN_above chain m j (by omega)
    refine ⟨fun h => (by rw [hb] at h; cases h), fun _ => ?_, fun h => ?_, fun h => (by rw [hb] at h; cases h)⟩
    · rw [hst]; exact Hier.eagerN_above chain m _ j (by omega)
    · have := hin j h; omega

/-- The order of first uses is irrelevant: two histories of first uses of the same hierarchy agree on
every class that both have bootstrapped (e.g. subclass first vs parent first vs eager). -/
theorem hier_order_irrelevant (chain : List Hier.HBody) (t1 t2 : List Nat)
    (h1 : ∀ k ∈ t1, k < chain.length) (h2 : ∀ k ∈ t2, k < chain.length) (j : Nat)
    (b1 : Hier.booted (Hier.runTrigs chain t1 (Hier.initSt chain)) j = true)
    (b2 : Hier.booted (Hier.runTrigs chain t2 (Hier.initSt chain)) j = true) :
    (Hier.runTrigs chain t1 (Hier.initSt chain))[j]? = (Hier.runTrigs chain t2 (Hier.initSt chain))[j]? := by
  rw [(hier_class_eq_eager chain t1 h1 j).1 b1, (hier_class_eq_eager chain t2 h2 j).1 b2]

/-- `@spec_class(attrs_typed={"x": float}) class K0: x = 5` / `@spec_class(attrs=["x"]) class K1(K0): x = 9`
(`x` = name 0, `float` = type 2): the child re-manages an attribute whose type the parent declared through the
decorator only. -/
def hTyped : List Hier.HBody :=
  [⟨[], [(0, .plain (some 5))], [(0, 2)], none⟩, ⟨[], [(0, .plain (some 9))], [(0, 0)], none⟩]

/-- `class K0: x: int = Attr(default=1, repr=False)` / `@spec_class(attrs=["x"]) class K1(K0): pass` -/
def hDecl : List Hier.HBody :=
  [⟨[(0, 1)], [(0, .attr ⟨some 1, false, false, true⟩)], [], none⟩, ⟨[], [], [(0, 0)], none⟩]

/-- Why the type hints must be resolved AFTER the parents are bootstrapped (C19-r4s1): with
`typing.get_type_hints` hoisted in front of the parents' bootstrap (`Stale.boot .hints`), a first use through
the subclass reads the parent's `__annotations__` before the parent has written `x: float` into them — the
child's `x` ends up typed `Any` (0), where the eager hierarchy (and the parent-first order, also of the
hoisted code) has `float` (2). `hier_first_use` is sensitive to exactly that order. -/
theorem hoisted_hints_stale :
    Hier.Stale.boot .hints hTyped 1 (Hier.initSt hTyped) ≠ Hier.eager hTyped
      ∧ ((Hier.clsAt (Hier.Stale.boot .hints hTyped 1 (Hier.initSt hTyped)) 1).mdata.map (·.map (·.ty))) = some [0]
      ∧ ((Hier.clsAt (Hier.eager hTyped) 1).mdata.map (·.map (·.ty))) = some [2]
      ∧ Hier.Stale.boot .hints hTyped 1 (Hier.Stale.boot .hints hTyped 0 (Hier.initSt hTyped)) = Hier.eager hTyped
      ∧ Hier.boot hTyped 1 (Hier.initSt hTyped) = Hier.eager hTyped := by decide

/-- The same for class attribute values looked up in front of the parents' bootstrap: the child would find
the parent's not yet consumed `Attr(...)` declaration, lift it (becoming the owner, `repr=False`) and store
the default on itself, where the eager hierarchy sees the parent's consumed plain default. -/
theorem stale_vals_lifts_parent_decl :
    Hier.Stale.boot .vals hDecl 1 (Hier.initSt hDecl) ≠ Hier.eager hDecl
      ∧ (Hier.clsAt (Hier.Stale.boot .vals hDecl 1 (Hier.initSt hDecl)) 1).dict = [(0, .plain (some 1))]
      ∧ (Hier.clsAt (Hier.eager hDecl) 1).dict = []
      ∧ Hier.boot hDecl 1 (Hier.initSt hDecl) = Hier.eager hDecl := by decide

/-- non-vacuity: the eager `hTyped` — both classes own `x: float`, wrote it into their `__annotations__`,
have their own default and helpers -/
example : Hier.eager hTyped =
    [⟨[(0, 2)], [(0, .plain (some 5))], some [⟨0, 2, ⟨some 5, false, true, true⟩, 0⟩], [0]⟩,
     ⟨[(0, 2)], [(0, .plain (some 9))], some [⟨0, 2, ⟨some 9, false, true, true⟩, 1⟩], [0]⟩] := by decide

/-- non-vacuity: a subclass-first use of a three-level chain bootstraps all three, root first; the middle
class overrides the inherited default only (keeps `repr=False`, owner stays the root) -/
example :
    let chain : List Hier.HBody :=
      [⟨[(0, 1)], [(0, .attr ⟨some 1, false, false, true⟩)], [], none⟩, ⟨[], [(0, .plain (some 7))], [], none⟩,
       ⟨[(1, 3)], [], [], none⟩]
    Hier.runTrigs chain [2, 0] (Hier.initSt chain) = Hier.eager chain
      ∧ (Hier.clsAt (Hier.eager chain) 2).mdata
          = some [⟨0, 1, ⟨some 7, false, false, true⟩, 0⟩, ⟨1, 3, ⟨none, false, true, true⟩, 2⟩] := by decide

end SpecVerif.Props.C19
