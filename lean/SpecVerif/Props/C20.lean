import SpecVerif.Proofs.C20Micro
/-!
# C20 — copying leaves process-global state untouched and is safe across threads

Property theorems only (helper lemmas: `Proofs/C20.lean`). Everything is about the
executable definitions of `Model/C20.lean`, which the correspondence check replays
against `spec_classes.utils.mutation` (sequential histories, crash points, thread
schedules).

Quantification: any number `n` of threads, any interleaving of `enter / exit /
copyModule / raise` steps of any threads (`Reachable`), any nesting depth, with or
without a foreign reducer present before the library is used; any value tree and
any history of copying operations for the sequential part.
-/
set_option linter.unusedSectionVars false
set_option linter.unusedVariables false
namespace SpecVerif.Props.C20
open SpecVerif.Py SpecVerif.C20

/-- The invariant of the protocol: the counter is the number of open protected
blocks over all threads; an entry is present while anybody is inside; the patched
flag means "the entry is ours and there was none before"; otherwise the table is
what it was before the library was used; no thread ever saw a failure. -/
abbrev Inv := SpecVerif.C20.Inv

theorem inv_init (foreign : Bool) (n : Nat) : Inv (init foreign n) := inv_init' foreign n

/-- Every step of every thread keeps the invariant. -/
theorem inv_step {s s' : Sys} (h : Inv s) (a : Step) (hs : step s a = some s') : Inv s' :=
  inv_step' h a hs

/-- Induction over any interleaving (including moves of the environment at
quiescent points). -/
theorem inv_reachable {foreign : Bool} {n : Nat} {s : Sys} (h : Reachable foreign n s) :
    Inv s ∧ s.depth.length = n := by
  induction h with
  | init => exact ⟨inv_init' _ _, by simp [init]⟩
  | step a _ hs ih =>
    obtain ⟨hl, _⟩ := step_len a hs
    exact ⟨inv_step' ih.1 a hs, by rw [hl, ih.2]⟩

/-- Only the environment's own move changes what "the table before the library
touched it" means; no step of the library does. -/
theorem orig_only_external {s s' : Sys} (a : Step) (hs : step s a = some s')
    (ha : ∀ f, a ≠ Step.external f) : s'.orig = s.orig := (step_len a hs).2 ha

/-- Whenever no copy is in progress the dispatch table holds exactly what it held
before the library was used (`s.orig`: the initial content, or what another library
registered at a later quiescent point), and the bookkeeping is reset. -/
theorem quiescent_restored {foreign : Bool} {n : Nat} {s : Sys} (h : Reachable foreign n s)
    (hq : s.quiescent) :
    s.table = s.orig ∧ s.orig ≠ some Entry.ours ∧ s.patched = false ∧ s.refcount = 0 := by
  obtain ⟨hi, _⟩ := inv_reachable h
  have hz : s.refcount = 0 := by
    rw [hi.rc, sum_eq_zero_of_all s.depth hq]; rfl
  have hp : s.patched = false := by
    cases hp : s.patched with
    | false => rfl
    | true => have := hi.patchedPos hp; omega
  exact ⟨hi.unpatched hp, hi.origOk, hp, hz⟩

/-- Without environment moves `orig` is the initial content. -/
theorem orig_initial {foreign : Bool} {n : Nat} {s : Sys} (as : List Step)
    (hr : run (init foreign n) as = some s) (hne : ∀ a ∈ as, ∀ f, a ≠ Step.external f) :
    s.orig = (if foreign then some Entry.foreign else none) := by
  have key : ∀ (as : List Step) (s0 : Sys), run s0 as = some s →
      (∀ a ∈ as, ∀ f, a ≠ Step.external f) → s.orig = s0.orig := by
    intro as
    induction as with
    | nil => intro s0 hr _; simp [run] at hr; rw [hr]
    | cons a as ih =>
      intro s0 hr hne
      simp only [run] at hr
      split at hr
      · cases hr
      · rename_i s1 hs
        rw [ih s1 hr (fun b hb => hne b (List.mem_cons_of_mem _ hb)),
          (step_len a hs).2 (hne a (List.mem_cons_self))]
  rw [key as _ hr hne]; simp [init]

/-- Every thread inside a protected block always finds a reducer for modules,
under every interleaving; and no thread has ever seen a failure. -/
theorem copies_succeed {foreign : Bool} {n : Nat} {s : Sys} (h : Reachable foreign n s)
    (t : Nat) (ht : 0 < s.depthOf t) :
    s.table.isSome = true ∧ step s (.copyModule t) = some s ∧ ∀ t', s.failedOf t' = false := by
  obtain ⟨hi, _⟩ := inv_reachable h
  obtain ⟨hc, hs⟩ := inv_copyStep hi ht
  exact ⟨hs, by simp [step, ht, hc], hi.noFail⟩

/-- `__exit__` never raises (`del` always finds the entry it is about to remove). -/
theorem exit_never_raises {foreign : Bool} {n : Nat} {s : Sys} (h : Reachable foreign n s)
    (t : Nat) (ht : 0 < s.depthOf t) : (exitBody s).2 = false :=
  (inv_exitStep (inv_reachable h).1 ht).2

/-- An exception at any point inside a protected block (any depth, whatever the
other threads are doing) unwinds to a state that satisfies the invariant, with that
thread outside every block and the other threads untouched. -/
theorem abort_safe {foreign : Bool} {n : Nat} {s : Sys} (h : Reachable foreign n s)
    (t : Nat) (ht : 0 < s.depthOf t) :
    ∃ s', step s (.raise t) = some s' ∧ Reachable foreign n s' ∧ Inv s' ∧ s'.depthOf t = 0
      ∧ ∀ t', t' ≠ t → s'.depthOf t' = s.depthOf t' := by
  obtain ⟨hi, _⟩ := inv_reachable h
  obtain ⟨a, b, c, _, _⟩ := inv_unwind hi t (s.depthOf t) (Nat.le_refl _)
  have hs : step s (.raise t) = some (unwind s t (s.depthOf t)) := by simp [step, ht]
  exact ⟨_, hs, Reachable.step _ h hs, a, by rw [b]; omega, c⟩

/-- Unwinding is nothing but the `__exit__` steps of the open blocks, one by one
(so an unwinding interleaved with other threads is covered by `inv_step`). -/
theorem raise_is_exits (s : Sys) (t k : Nat) : unwind s t (k + 1) = unwind (exitStep s t) t k := rfl

/-- `run` (the executable interleaving semantics used by the driver) stays inside `Reachable`. -/
theorem run_reachable {foreign : Bool} {n : Nat} {s s' : Sys} (h : Reachable foreign n s)
    (as : List Step) (hr : run s as = some s') : Reachable foreign n s' := by
  induction as generalizing s with
  | nil => simp [run] at hr; subst hr; exact h
  | cons a as ih =>
    simp only [run] at hr
    split at hr
    · cases hr
    · rename_i s1 hs; exact ih (Reachable.step a h hs) hr

/-! ## sequential histories -/

/-- The instruction list of every `protect_via_deepcopy(v)` is well bracketed. -/
theorem trace_wellBracketed (v : Val) : Bal (protectI v) := bal_protectI v

/-- `protect_via_deepcopy(v)` by thread `t`, started in ANY state satisfying the
invariant: the invariant holds afterwards, other threads are untouched, and thread
`t` is back at its starting depth (copy completed) or outside every block (an
exception, e.g. from `__post_copy__`, left the operation). -/
theorem protect_restores (v : Val) (t : Nat) (s : Sys) (h : Inv s) (ht : t < s.depth.length) :
    Post t s (execSeq t (protectI v) s) := exec_protect v t s h ht

/-- A bare `copy.deepcopy(v)` of a value whose modules all sit inside spec instances
(containers of instances, to any depth), by thread `t`, from any state satisfying the
invariant: same guarantees. -/
theorem deepcopy_restores (v : Val) (hg : guardedV v = true) (t : Nat) (s : Sys) (h : Inv s)
    (ht : t < s.depth.length) : Post t s (execSeq t (deepI v) s) :=
  exec_bal0 (bal0_deepI v hg) t s h ht

theorem execHistory_protect (t : Nat) (v : Val) (r : List HistOp) (s : Sys) :
    execHistory t (.protect v :: r) s = execHistory t r (execSeq t (protectI v) s).1 := rfl
theorem execHistory_deepcopy (t : Nat) (v : Val) (r : List HistOp) (s : Sys) :
    execHistory t (.deepcopy v :: r) s
      = execHistory t r (execSeq t (if guardedV v then deepI v else []) s).1 := rfl
theorem execHistory_external (t : Nat) (f : Bool) (r : List HistOp) (s : Sys) :
    execHistory t (.external f :: r) s
      = execHistory t r (if s.idle then externalStep s f else s) := rfl

/-- After any history of copying operations (nested, aborted or not; with other
libraries changing their own registration in between) the table is exactly what the
environment last put there — initially what it held before the library was used. -/
theorem history_restored (foreign : Bool) (h : List HistOp) :
    let s := execHistory 0 h (init foreign 1)
    s.table = expectedOrig (if foreign then some Entry.foreign else none) h ∧ s.patched = false
      ∧ s.refcount = 0 ∧ s.failedOf 0 = false := by
  intro s
  have allq : ∀ s0 : Sys, s0.depth.length = 1 → s0.depthOf 0 = 0 → ∀ t, s0.depthOf t = 0 := by
    intro s0 hl hd t
    cases t with
    | zero => exact hd
    | succ t =>
      have : s0.depth.length ≤ t + 1 := by omega
      simp [Sys.depthOf, List.getD_eq_getElem?_getD, List.getElem?_eq_none this]
  have key : ∀ (h : List HistOp) (s0 : Sys), Inv s0 → s0.depth.length = 1 → s0.depthOf 0 = 0 →
      Inv (execHistory 0 h s0) ∧ (execHistory 0 h s0).depth.length = 1
        ∧ (execHistory 0 h s0).depthOf 0 = 0 ∧ (execHistory 0 h s0).orig = expectedOrig s0.orig h := by
    intro h
    induction h with
    | nil => intro s0 hi hl hd; exact ⟨hi, hl, hd, rfl⟩
    | cons op r ih =>
      intro s0 hi hl hd
      have seqCase : ∀ p : List Instr, Post 0 s0 (execSeq 0 p s0) →
          Inv (execHistory 0 r (execSeq 0 p s0).1) ∧ (execHistory 0 r (execSeq 0 p s0).1).depth.length = 1
          ∧ (execHistory 0 r (execSeq 0 p s0).1).depthOf 0 = 0
          ∧ (execHistory 0 r (execSeq 0 p s0).1).orig = expectedOrig s0.orig r := by
        intro p P
        have hd' : (execSeq 0 p s0).1.depthOf 0 = 0 := by
          cases hb : (execSeq 0 p s0).2 with
          | true => rw [P.done hb, hd]
          | false => exact P.abort hb
        obtain ⟨a, b, c, d⟩ := ih _ P.inv (by rw [P.len, hl]) hd'
        exact ⟨a, b, c, by rw [d, P.orig]⟩
      cases op with
      | protect v =>
        rw [execHistory_protect]
        exact seqCase _ (exec_protect v 0 s0 hi (by omega))
      | deepcopy v =>
        rw [execHistory_deepcopy]
        show _ ∧ _ ∧ _ ∧ _ = expectedOrig s0.orig r
        by_cases hg : guardedV v = true
        · rw [if_pos hg]
          exact seqCase _ (exec_bal0 (bal0_deepI v hg) 0 s0 hi (by omega))
        · rw [if_neg hg]
          exact seqCase [] ⟨hi, rfl, rfl, fun _ _ => rfl, fun _ => rfl, by simp [execSeq]⟩
      | external f =>
        have hidle : s0.idle = true := by
          unfold Sys.idle
          rw [List.all_eq_true]
          intro x hx
          obtain ⟨i, hi', rfl⟩ := List.getElem_of_mem hx
          have := allq s0 hl hd i
          simp [Sys.depthOf, List.getD_eq_getElem?_getD, hi'] at this
          simp [this]
        have hs : step s0 (.external f) = some (externalStep s0 f) := by simp [step, hidle]
        have hi1 := inv_step' hi _ hs
        rw [execHistory_external, hidle]
        simp only [if_true]
        show _ ∧ _ ∧ _ ∧ _ = expectedOrig (if f then some Entry.foreign else none) r
        obtain ⟨a, b, c, d⟩ := ih (externalStep s0 f) hi1 hl hd
        exact ⟨a, b, c, by rw [d]; rfl⟩
  obtain ⟨hi, hl, hd, ho⟩ := key h (init foreign 1) (inv_init' _ _) (by simp [init]) (by simp [init, Sys.depthOf])
  have hq := allq _ hl hd
  have hz : (execHistory 0 h (init foreign 1)).refcount = 0 := by
    rw [hi.rc, sum_eq_zero_of_all _ hq]; rfl
  have hp : (execHistory 0 h (init foreign 1)).patched = false := by
    cases hp : (execHistory 0 h (init foreign 1)).patched with
    | false => rfl
    | true => have := hi.patchedPos hp; omega
  refine ⟨?_, hp, hz, hi.noFail 0⟩
  show (execHistory 0 h (init foreign 1)).table = _
  rw [hi.unpatched hp, ho]; simp [init]

/-! ## statement granularity: `enter`/`exit` need not be assumed atomic -/

open Micro in
/-- The invariant of the statement-level model (pre-emption between ANY two statements of
`__enter__`/`__exit__`, any number of threads) is kept by every statement of every thread. -/
theorem micro_inv_reachable {foreign : Bool} {n : Nat} {s : MSys} (h : MReachable foreign n s) : MInv s := by
  induction h with
  | init => exact minv_init _ _
  | step t a _ hs ih => exact minv_step ih t a hs

open Micro in
/-- Statement-level safety, under every interleaving of single statements: no copy ever
fails and `__exit__` never raises; a thread inside a protected block always finds a reducer;
and when no thread is inside `__enter__`/`__exit__`/a protected block the table is what it
was before the library was used, with counter, flag and lock reset. -/
theorem micro_safe {foreign : Bool} {n : Nat} {s : MSys} (h : MReachable foreign n s) :
    s.failed = false
    ∧ (∀ (t : Nat) (th : MT), s.threads[t]? = some th → th.pc = MPC.idle → 0 < th.depth → s.table ≠ none)
    ∧ ((∀ (t : Nat) (th : MT), s.threads[t]? = some th → th.pc = MPC.idle ∧ th.depth = 0) →
        s.table = s.orig ∧ s.patched = false ∧ s.rc = 0 ∧ s.lock = none) := by
  have hi := micro_inv_reachable h
  refine ⟨hi.noFail, fun t th ht hpc hd => copier_finds_entry hi t th ht hpc hd, ?_⟩
  intro hq
  have hlock : s.lock = none := by
    cases hl : s.lock with
    | none => rfl
    | some u =>
      have hult := hi.lockLt u hl
      have hu : s.threads[u]? = some s.threads[u] := List.getElem?_eq_getElem hult
      have := (hi.lockPc u _ hu).2 hl
      rw [(hq u _ hu).1] at this; cases this
  have hD : sumDepth s.threads = 0 := sumDepth_zero _ (fun t th ht => (hq t th ht).2)
  have hhp : holderPc s = .idle := by simp [holderPc, hlock]
  have hrow := hi.row
  have hrc := hi.rcEq
  rw [hhp, hD] at hrow hrc
  simp only [Row] at hrow
  have hp : s.patched = false := by
    cases hp : s.patched with
    | false => rfl
    | true => have := (hrow.1 hp).2.2; omega
  exact ⟨hrow.2.1 hp, hp, by simpa [adj] using hrc, hlock⟩

open Micro in
/-- `mrunSched` (executable) stays inside `MReachable`. -/
theorem mrunSched_reachable {foreign : Bool} {n : Nat} {s : MSys} (h : MReachable foreign n s)
    (sched : List (Nat × MAct)) : MReachable foreign n (mrunSched s sched) := by
  induction sched generalizing s with
  | nil => exact h
  | cons x xs ih =>
    obtain ⟨t, a⟩ := x
    simp only [mrunSched]
    split
    · exact ih h
    · rename_i s' hs; exact ih (MReachable.step t a h hs)

open Micro in
/-- non-vacuity: thread 1 is pre-empted in the middle of `__exit__` (entry already deleted,
flag not yet cleared) while thread 0 waits for the lock in `__enter__` -/
example :
    let s := mrunSched (minit false 2)
      [(1, .enter), (1, .next), (1, .next), (1, .next), (1, .next), (1, .next), (1, .next), (1, .copy),
       (1, .exit), (1, .next), (1, .next), (1, .next), (0, .enter), (0, .next), (1, .next)]
    (s.threads.map (·.pc)) = [.eAcq, .xClrP] ∧ s.table = none ∧ s.patched = true ∧ s.lock = some 1 := by decide

/-! ## the code before the `fix:` commits violates the property (`decide`d witnesses) -/

open Legacy in
/-- D4, one thread: a copy nested inside a copy leaves the entry in the table. -/
theorem legacy_leak :
    ∃ sched, ∃ m, mrun (M.start [progD4 (progD4 [.copy])]) sched = some m
      ∧ m.finished = true ∧ m.table ≠ none :=
  ⟨List.replicate 19 0, by decide⟩

open Legacy in
/-- D4, two threads each copying one module: one thread's copy fails. -/
theorem legacy_race :
    ∃ sched, ∃ m, mrun (M.start [progD4 [.copy], progD4 [.copy]]) sched = some m
      ∧ m.finished = true ∧ m.failed ≠ [false, false] :=
  ⟨[0,0,0,0,0,0, 1,1,1,1,1,1,1, 0,0,0,0, 1,1,1], by decide⟩

open Legacy in
/-- Before `efbf880` (class-level lock, counters on the guard *instance*): the
first-use race in `__new__` creates two guards that count separately; the guard
that installed the entry removes it while the other thread is still copying. The
schedule respects the lock (`mrun` refuses a step that would need a held lock). -/
theorem legacy_two_instances_race :
    ∃ sched, ∃ m, mrun (M.start [progPerInstance [.copy], progPerInstance [.copy]]) sched = some m
      ∧ m.finished = true ∧ m.failed ≠ [false, false] :=
  ⟨[0, 1, 0,0,0,0,0,0,0, 1,1,1,1,1,1,1, 0,0,0,0,0, 1,1,1,1,1], by decide⟩

/-! ## order of completion (non-LIFO overlap) -/

/-- Whatever the order in which overlapping copies begin and finish (any interleaving of any
steps of any number of threads, no move of the environment): once no copy is in progress the table
is what it was before the library was used, and no copy has failed. -/
theorem completion_order_irrelevant {foreign : Bool} {n : Nat} (as : List Step) (s : Sys)
    (hr : run (init foreign n) as = some s) (hne : ∀ a ∈ as, ∀ f, a ≠ Step.external f)
    (hq : s.quiescent) :
    s.table = (if foreign then some Entry.foreign else none) ∧ s.patched = false ∧ s.refcount = 0
      ∧ ∀ t, s.failedOf t = false := by
  have hreach : Reachable foreign n s := run_reachable Reachable.init as hr
  obtain ⟨qt, _, qp, qr⟩ := quiescent_restored hreach hq
  exact ⟨by rw [qt, orig_initial as hr hne], qp, qr, (inv_reachable hreach).1.noFail⟩

/-- Order of completion does not matter (fixed code): from any reachable state in which no copy
is in progress, thread `a` begins a copy, thread `b` begins one, `a` finishes FIRST, then `b`
(the non-LIFO order): every step is enabled, both copies find a reducer, and the table ends up
exactly as the library found it, flag and counter reset. -/
theorem nonlifo_restored {foreign : Bool} {n : Nat} {s : Sys} (h : Reachable foreign n s)
    (hq : s.quiescent) (a b : Nat) (ha : a < n) (hb : b < n) (hab : a ≠ b) :
    ∃ s', run s [.enter a, .enter b, .copyModule a, .exit a, .copyModule b, .exit b] = some s'
      ∧ Reachable foreign n s' ∧ s'.quiescent ∧ s'.table = s.orig ∧ s'.patched = false ∧ s'.refcount = 0
      ∧ ∀ t, s'.failedOf t = false := by
  obtain ⟨hi, hl⟩ := inv_reachable h
  have la : a < s.depth.length := by omega
  have lb : b < s.depth.length := by omega
  -- enter a
  let s1 := enterStep s a
  have e1 : step s (.enter a) = some s1 := by simp [step, la, s1]
  have d1 := depth_enterStep s a la
  have l1 : s1.depth.length = s.depth.length := len_enterStep s a
  -- enter b
  let s2 := enterStep s1 b
  have lb1 : b < s1.depth.length := by omega
  have e2 : step s1 (.enter b) = some s2 := by simp [step, lb1, s2]
  have d2 := depth_enterStep s1 b lb1
  have r2 : Reachable foreign n s2 := Reachable.step _ (Reachable.step _ h e1) e2
  have s2a : s2.depthOf a = 1 := by rw [d2.2 a hab, d1.1, hq a]
  have s2b : s2.depthOf b = 1 := by rw [d2.1, d1.2 b (Ne.symm hab), hq b]
  -- copy a
  have c3 := copies_succeed r2 a (by omega)
  -- exit a
  let s4 := exitStep s2 a
  have e4 : step s2 (.exit a) = some s4 := by simp [step, s2a, s4]
  have d4 := depth_exitStep s2 a (by omega)
  have r4 : Reachable foreign n s4 := Reachable.step _ r2 e4
  have s4b : s4.depthOf b = 1 := by rw [d4.2 b (Ne.symm hab), s2b]
  have c5 := copies_succeed r4 b (by omega)
  let s6 := exitStep s4 b
  have e6 : step s4 (.exit b) = some s6 := by simp [step, s4b, s6]
  have d6 := depth_exitStep s4 b (by omega)
  have r6 : Reachable foreign n s6 := Reachable.step _ r4 e6
  have q6 : s6.quiescent := by
    intro t
    by_cases tb : t = b
    · subst tb; rw [d6.1, s4b]
    · rw [d6.2 t tb]
      by_cases ta : t = a
      · subst ta; rw [d4.1, s2a]
      · rw [d4.2 t ta, d2.2 t tb, d1.2 t ta, hq t]
  have o6 : s6.orig = s.orig := by
    show (exitStep (exitStep (enterStep (enterStep s a) b) a) b).orig = s.orig
    rw [orig_exitStep, orig_exitStep, orig_enterStep, orig_enterStep]
  obtain ⟨qt, _, qp, qr⟩ := quiescent_restored r6 q6
  refine ⟨s6, ?_, r6, q6, by rw [qt, o6], qp, qr, (inv_reachable r6).1.noFail⟩
  simp only [run, e1, e2, c3.2.1, e4, c5.2.1, e6]

open PerUse in
/-- A guard whose "I installed the entry" flag is remembered per use leaks the entry as soon as two
copies overlap WITHOUT being nested (A begins, B begins, A finishes, B finishes): nobody is inside
any more, both copies succeeded, and the table still holds our reducer. -/
theorem peruse_flag_nonlifo_leak :
    ∃ s, prun (pinit 2) [.enter 0, .enter 1, .copy 0, .exit 0, .copy 1, .exit 1] = some s
      ∧ s.quiescent = true ∧ s.failed = false ∧ s.table = some Entry.ours := ⟨_, rfl, by decide⟩

open PerUse in
/-- ... while every LIFO order of the same two copies, nesting in one thread included, is clean: the
defect is invisible to sequential tests and to well-nested schedules. -/
theorem peruse_flag_lifo_clean :
    (∀ s, prun (pinit 2) [.enter 0, .enter 1, .copy 0, .copy 1, .exit 1, .exit 0] = some s →
        s.quiescent = true ∧ s.table = none)
    ∧ (∀ s, prun (pinit 2) [.enter 0, .enter 0, .copy 0, .exit 0, .exit 0, .enter 1, .copy 1, .exit 1] = some s →
        s.quiescent = true ∧ s.table = none) := by
  constructor <;> (intro s hs; cases hs; decide)

/-- non-vacuity of `nonlifo_restored`: the initial state of two threads satisfies its hypotheses, and the
state in the middle (A has finished, B is still copying) really holds our entry with counter 1 -/
example : ∃ s, run (init false 2) [.enter 0, .enter 1, .copyModule 0, .exit 0] = some s
    ∧ s.depthOf 0 = 0 ∧ s.depthOf 1 = 1 ∧ s.table = some Entry.ours ∧ s.refcount = 1 ∧ s.patched = true :=
  ⟨_, rfl, by decide⟩

example : ∃ s', run (init false 2) [.enter 0, .enter 1, .copyModule 0, .exit 0, .copyModule 1, .exit 1] = some s'
    ∧ s'.table = none :=
  let ⟨s', h1, _, _, h4, _⟩ := nonlifo_restored (foreign := false) (n := 2) Reachable.init
    (by intro t; match t with | 0 => rfl | 1 => rfl | (t + 2) => rfl) 0 1 (by omega) (by omega) (by omega)
  ⟨s', h1, h4⟩

/-! ## non-vacuity -/

/-- a reachable non-quiescent state with two threads, one of them nested -/
example : ∃ s, Reachable false 2 s ∧ s.depthOf 0 = 2 ∧ s.depthOf 1 = 1 ∧ s.table = some Entry.ours
    ∧ s.refcount = 3 :=
  ⟨_, run_reachable Reachable.init [.enter 0, .enter 1, .enter 0, .copyModule 1] rfl, by decide⟩

/-- a reachable quiescent state after real activity, foreign entry kept -/
example : ∃ s, Reachable false 2 s ∧ s.quiescent ∧ s.table = some Entry.foreign :=
  ⟨_, run_reachable Reachable.init [.enter 0, .exit 0, .external true, .enter 0, .enter 1, .copyModule 0, .raise 0, .exit 1] rfl,
    by intro t; match t with | 0 => rfl | 1 => rfl | (t + 2) => rfl, by decide⟩

/-- a value whose copy nests protected blocks to depth 3 and whose `__post_copy__` raises -/
example :
    let v := Val.inst false (.cons false (.list (.cons (.inst false (.cons false (.list (.cons .module .nil)) .nil) true) .nil)) .nil) false
    protectI v = [.enter, .enter, .enter, .copy, .exit, .raise, .exit, .exit]
      ∧ (execSeq 0 (protectI v) (init false 1)).2 = false
      ∧ (execSeq 0 (protectI v) (init false 1)).1.table = none := by decide

end SpecVerif.Props.C20
