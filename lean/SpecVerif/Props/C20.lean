import SpecVerif.Proofs.C20
/-!
# C20 — copying leaves process-global state untouched and is safe across threads

Property theorems only (helper lemmas: `Proofs/C20.lean`). Everything is about the
executable definitions of `Model/C20.lean`, which the correspondence check replays
against `spec_classes.utils.mutation` (sequential histories, crash points, thread
schedules).

Quantification: any number `n` of threads, any interleaving of `enter / exit /
copyModule / raise` steps of any threads (`Reachable`), any nesting depth, with or
without a foreign reducer present before the library is used; any value tree and
any history of copying operations for the sequential part.
-/
set_option linter.unusedSectionVars false
set_option linter.unusedVariables false
namespace SpecVerif.Props.C20
open SpecVerif.Py SpecVerif.C20

/-- The invariant of the protocol: the counter is the number of open protected
blocks over all threads; an entry is present while anybody is inside; the patched
flag means "the entry is ours and there was none before"; otherwise the table is
what it was before the library was used; no thread ever saw a failure. -/
abbrev Inv := SpecVerif.C20.Inv

theorem inv_init (foreign : Bool) (n : Nat) : Inv (init foreign n) := inv_init' foreign n

/-- Every step of every thread keeps the invariant. -/
theorem inv_step {s s' : Sys} (h : Inv s) (a : Step) (hs : step s a = some s') : Inv s' :=
  inv_step' h a hs

/-- Induction over any interleaving. -/
theorem inv_reachable {foreign : Bool} {n : Nat} {s : Sys} (h : Reachable foreign n s) :
    Inv s ∧ s.depth.length = n ∧ s.orig = (if foreign then some Entry.foreign else none) := by
  induction h with
  | init => exact ⟨inv_init' _ _, by simp [init], by simp [init]⟩
  | step a _ hs ih =>
    obtain ⟨hl, ho⟩ := step_len a hs
    exact ⟨inv_step' ih.1 a hs, by rw [hl, ih.2.1], by rw [ho, ih.2.2]⟩

/-- Whenever no copy is in progress the dispatch table holds exactly what it held
before the library was used, and the bookkeeping is reset. -/
theorem quiescent_restored {foreign : Bool} {n : Nat} {s : Sys} (h : Reachable foreign n s)
    (hq : s.quiescent) :
    s.table = (if foreign then some Entry.foreign else none) ∧ s.patched = false ∧ s.refcount = 0 := by
  obtain ⟨hi, _, ho⟩ := inv_reachable h
  have hz : s.refcount = 0 := by
    rw [hi.rc, sum_eq_zero_of_all s.depth hq]; rfl
  have hp : s.patched = false := by
    cases hp : s.patched with
    | false => rfl
    | true => have := hi.patchedPos hp; omega
  exact ⟨by rw [hi.unpatched hp, ho], hp, hz⟩

/-- Every thread inside a protected block always finds a reducer for modules,
under every interleaving; and no thread has ever seen a failure. -/
theorem copies_succeed {foreign : Bool} {n : Nat} {s : Sys} (h : Reachable foreign n s)
    (t : Nat) (ht : 0 < s.depthOf t) :
    s.table.isSome = true ∧ step s (.copyModule t) = some s ∧ ∀ t', s.failedOf t' = false := by
  obtain ⟨hi, _, _⟩ := inv_reachable h
  obtain ⟨hc, hs⟩ := inv_copyStep hi ht
  exact ⟨hs, by simp [step, ht, hc], hi.noFail⟩

/-- `__exit__` never raises (`del` always finds the entry it is about to remove). -/
theorem exit_never_raises {foreign : Bool} {n : Nat} {s : Sys} (h : Reachable foreign n s)
    (t : Nat) (ht : 0 < s.depthOf t) : (exitBody s).2 = false :=
  (inv_exitStep (inv_reachable h).1 ht).2

/-- An exception at any point inside a protected block (any depth, whatever the
other threads are doing) unwinds to a state that satisfies the invariant, with that
thread outside every block and the other threads untouched. -/
theorem abort_safe {foreign : Bool} {n : Nat} {s : Sys} (h : Reachable foreign n s)
    (t : Nat) (ht : 0 < s.depthOf t) :
    ∃ s', step s (.raise t) = some s' ∧ Reachable foreign n s' ∧ Inv s' ∧ s'.depthOf t = 0
      ∧ ∀ t', t' ≠ t → s'.depthOf t' = s.depthOf t' := by
  obtain ⟨hi, _, _⟩ := inv_reachable h
  obtain ⟨a, b, c, _, _⟩ := inv_unwind hi t (s.depthOf t) (Nat.le_refl _)
  have hs : step s (.raise t) = some (unwind s t (s.depthOf t)) := by simp [step, ht]
  exact ⟨_, hs, Reachable.step _ h hs, a, by rw [b]; omega, c⟩

/-- Unwinding is nothing but the `__exit__` steps of the open blocks, one by one
(so an unwinding interleaved with other threads is covered by `inv_step`). -/
theorem raise_is_exits (s : Sys) (t k : Nat) : unwind s t (k + 1) = unwind (exitStep s t) t k := rfl

/-- `run` (the executable interleaving semantics used by the driver) stays inside `Reachable`. -/
theorem run_reachable {foreign : Bool} {n : Nat} {s s' : Sys} (h : Reachable foreign n s)
    (as : List Step) (hr : run s as = some s') : Reachable foreign n s' := by
  induction as generalizing s with
  | nil => simp [run] at hr; subst hr; exact h
  | cons a as ih =>
    simp only [run] at hr
    split at hr
    · cases hr
    · rename_i s1 hs; exact ih (Reachable.step a h hs) hr

/-! ## sequential histories -/

/-- The instruction list of every `protect_via_deepcopy(v)` is well bracketed. -/
theorem trace_wellBracketed (v : Val) : Bal (protectI v) := bal_protectI v

/-- `protect_via_deepcopy(v)` by thread `t`, started in ANY state satisfying the
invariant: the invariant holds afterwards, other threads are untouched, and thread
`t` is back at its starting depth (copy completed) or outside every block (an
exception, e.g. from `__post_copy__`, left the operation). -/
theorem protect_restores (v : Val) (t : Nat) (s : Sys) (h : Inv s) (ht : t < s.depth.length) :
    Post t s (execSeq t (protectI v) s) := exec_protect v t s h ht

/-- After any history of copying operations (nested, aborted or not) the table is
exactly what it was before the library was used. -/
theorem history_restored (foreign : Bool) (vs : List Val) :
    let s := execHistory 0 vs (init foreign 1)
    s.table = (if foreign then some Entry.foreign else none) ∧ s.patched = false
      ∧ s.refcount = 0 ∧ s.failedOf 0 = false := by
  intro s
  have key : ∀ (vs : List Val) (s0 : Sys), Inv s0 → s0.depth.length = 1 → s0.depthOf 0 = 0 →
      Inv (execHistory 0 vs s0) ∧ (execHistory 0 vs s0).depth.length = 1
        ∧ (execHistory 0 vs s0).depthOf 0 = 0 ∧ (execHistory 0 vs s0).orig = s0.orig := by
    intro vs
    induction vs with
    | nil => intro s0 h hl hd; exact ⟨h, hl, hd, rfl⟩
    | cons v vs ih =>
      intro s0 h hl hd
      have P := exec_protect v 0 s0 h (by omega)
      have hd' : (execSeq 0 (protectI v) s0).1.depthOf 0 = 0 := by
        cases hb : (execSeq 0 (protectI v) s0).2 with
        | true => rw [P.done hb, hd]
        | false => exact P.abort hb
      obtain ⟨a, b, c, d⟩ := ih _ P.inv (by rw [P.len, hl]) hd'
      exact ⟨a, b, c, by show (execHistory 0 vs (execSeq 0 (protectI v) s0).1).orig = _; rw [d, P.orig]⟩
  obtain ⟨hi, hl, hd, ho⟩ := key vs (init foreign 1) (inv_init' _ _) (by simp [init]) (by simp [init, Sys.depthOf])
  have hq : ∀ t, (execHistory 0 vs (init foreign 1)).depthOf t = 0 := by
    intro t
    cases t with
    | zero => exact hd
    | succ t =>
      have : (execHistory 0 vs (init foreign 1)).depth.length ≤ t + 1 := by omega
      simp [Sys.depthOf, List.getD_eq_getElem?_getD, List.getElem?_eq_none this]
  have hz : (execHistory 0 vs (init foreign 1)).refcount = 0 := by
    rw [hi.rc, sum_eq_zero_of_all _ hq]; rfl
  have hp : (execHistory 0 vs (init foreign 1)).patched = false := by
    cases hp : (execHistory 0 vs (init foreign 1)).patched with
    | false => rfl
    | true => have := hi.patchedPos hp; omega
  refine ⟨?_, hp, hz, hi.noFail 0⟩
  show (execHistory 0 vs (init foreign 1)).table = _
  rw [hi.unpatched hp, ho]; simp [init]

/-! ## the code before the `fix:` commits violates the property (`decide`d witnesses) -/

open Legacy in
/-- D4, one thread: a copy nested inside a copy leaves the entry in the table. -/
theorem legacy_leak :
    ∃ sched, ∃ m, mrun (M.start [progD4 (progD4 [.copy])]) sched = some m
      ∧ m.finished = true ∧ m.table ≠ none :=
  ⟨List.replicate 19 0, by decide⟩

open Legacy in
/-- D4, two threads each copying one module: one thread's copy fails. -/
theorem legacy_race :
    ∃ sched, ∃ m, mrun (M.start [progD4 [.copy], progD4 [.copy]]) sched = some m
      ∧ m.finished = true ∧ m.failed ≠ [false, false] :=
  ⟨[0,0,0,0,0,0, 1,1,1,1,1,1,1, 0,0,0,0, 1,1,1], by decide⟩

open Legacy in
/-- Before `efbf880` (class-level lock, counters on the guard *instance*): the
first-use race in `__new__` creates two guards that count separately; the guard
that installed the entry removes it while the other thread is still copying. The
schedule respects the lock (`mrun` refuses a step that would need a held lock). -/
theorem legacy_two_instances_race :
    ∃ sched, ∃ m, mrun (M.start [progPerInstance [.copy], progPerInstance [.copy]]) sched = some m
      ∧ m.finished = true ∧ m.failed ≠ [false, false] :=
  ⟨[0, 1, 0,0,0,0,0,0,0, 1,1,1,1,1,1,1, 0,0,0,0,0, 1,1,1,1,1], by decide⟩

/-! ## non-vacuity -/

/-- a reachable non-quiescent state with two threads, one of them nested -/
example : ∃ s, Reachable false 2 s ∧ s.depthOf 0 = 2 ∧ s.depthOf 1 = 1 ∧ s.table = some Entry.ours
    ∧ s.refcount = 3 :=
  ⟨_, run_reachable Reachable.init [.enter 0, .enter 1, .enter 0, .copyModule 1] rfl, by decide⟩

/-- a reachable quiescent state after real activity, foreign entry kept -/
example : ∃ s, Reachable true 2 s ∧ s.quiescent ∧ s.table = some Entry.foreign :=
  ⟨_, run_reachable Reachable.init [.enter 0, .enter 1, .copyModule 0, .raise 0, .exit 1] rfl,
    by intro t; match t with | 0 => rfl | 1 => rfl | (t + 2) => rfl, by decide⟩

/-- a value whose copy nests protected blocks to depth 3 and whose `__post_copy__` raises -/
example :
    let v := Val.inst false (.cons false (.list (.cons (.inst false (.cons false (.list (.cons .module .nil)) .nil) true) .nil)) .nil) false
    protectI v = [.enter, .enter, .enter, .copy, .exit, .raise, .exit, .exit]
      ∧ (execSeq 0 (protectI v) (init false 1)).2 = false
      ∧ (execSeq 0 (protectI v) (init false 1)).1.table = none := by decide

end SpecVerif.Props.C20
