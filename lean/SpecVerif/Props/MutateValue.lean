import SpecVerif.Model.MutateValue
/-!
# Which object `mutate_value` edits (shared by C01 and C07)

Statements about `SpecVerif.MutateValue.mutateValue` (`Model/MutateValue.lean`) for EVERY combination of its arguments
(current value present or not, new value, `replace`, preparer hook, constructor, keyword edits, transform hook, attribute
transforms, `inplace`, frozen value class) -- the hooks ranging over "returns its argument / a new object / a
PRE-EXISTING object / raises":

* `cow_never_edits_receiver_or_argument` (C01): without `inplace` neither the receiver's current value nor the
  caller's new value is ever edited, whether the call returns or raises;
* `cow_never_edits_prepared` (C01 / C07): nor is the object the preparer hook handed out -- it is copied before keyword
  edits / attribute transforms are applied to it;
* `cow_edits_only_fresh_Full`: without `inplace`, every object edited was built or copied by the call itself -- at full
  strength since fix 5dd14f2 (`cow_never_edits_transformed`: the object a transform hands back included;
  `cow_edits_only_fresh_partial` is the form with an exclusion that was provable before);
  `legacy_cow_edits_only_fresh_false` is about `mutateValueLegacy`, a counter-model of the code BEFORE the fix (fixed
  finding KF-C07-transform-edits-returned-object), not about the code as it is;
* `frozen_inplace_edits_nothing` (C07): in place on a frozen value nothing is edited at all.

`In` is a finite type; the proofs are exhaustive case analyses evaluated by the kernel.
-/
namespace SpecVerif.Props.MutateValue
open SpecVerif.Py SpecVerif.MutateValue

/-- Without `inplace`, the receiver's current value and the caller's new value are never edited. -/
theorem cow_never_edits_receiver_or_argument (i : In) (hip : i.inplace = false) :
    Obj.old ∉ (mutateValue i).2.edited ∧ Obj.arg ∉ (mutateValue i).2.edited := by
  obtain ⟨o, n, r, p, c, a, t, at_, ip, fz⟩ := i
  simp only at hip; subst hip
  cases o <;> cases n <;> cases r <;> cases c <;> cases a <;> cases at_ <;> cases fz <;>
    rcases p with _ | (_ | _ | _ | _) <;> rcases t with _ | (_ | _ | _ | _) <;> decide

/-- Without `inplace`, the object a preparer hook hands out is never edited: it is copied first. -/
theorem cow_never_edits_prepared (i : In) (hip : i.inplace = false) : Obj.preP ∉ (mutateValue i).2.edited := by
  obtain ⟨o, n, r, p, c, a, t, at_, ip, fz⟩ := i
  simp only at hip; subst hip
  cases o <;> cases n <;> cases r <;> cases c <;> cases a <;> cases at_ <;> cases fz <;>
    rcases p with _ | (_ | _ | _ | _) <;> rcases t with _ | (_ | _ | _ | _) <;> decide

/-- Without `inplace`, every edited object was built or copied by the call -- whatever the preparer and the transform
hand out (full strength since fix 5dd14f2). -/
theorem cow_edits_only_fresh_Full (i : In) (hip : i.inplace = false) : editedPre i = [] := by
  obtain ⟨o, n, r, p, c, a, t, at_, ip, fz⟩ := i
  simp only at hip; subst hip
  cases o <;> cases n <;> cases r <;> cases c <;> cases a <;> cases at_ <;> cases fz <;>
    rcases p with _ | (_ | _ | _ | _) <;> rcases t with _ | (_ | _ | _ | _) <;> decide

/-- The form proved before the fix (with the exclusion of a transform handing out a pre-existing object followed by
attribute transforms): now a corollary. -/
theorem cow_edits_only_fresh_partial (i : In) (hip : i.inplace = false)
    (_hx : ¬ (i.transform = some .pre ∧ i.attrTr = true)) : editedPre i = [] :=
  cow_edits_only_fresh_Full i hip

/-- Without `inplace`, the object a TRANSFORM hands back is never edited either. -/
theorem cow_never_edits_transformed (i : In) (hip : i.inplace = false) : Obj.preT ∉ (mutateValue i).2.edited := by
  intro h
  have := cow_edits_only_fresh_Full i hip
  have hm : Obj.preT ∈ editedPre i := by
    unfold editedPre; exact List.mem_filter.mpr ⟨h, rfl⟩
  rw [this] at hm; cases hm

/-- LEGACY counter-model (the code before fix 5dd14f2, `mutateValueLegacy`): there the statement was false --
`transform_<attr>(f, **attr_transforms)` on an attribute without value default-constructed the value, replaced it by
what `f` returned and edited THAT object in place (fixed finding KF-C07-transform-edits-returned-object).  Says nothing
about the code as it is. -/
theorem legacy_cow_edits_only_fresh_false :
    ¬ (∀ i : In, i.inplace = false → (mutateValueLegacy i).2.edited.filter Obj.preExisting = []) := by
  intro h
  have := h { old := false, new := .missing, replace := false, prepare := none, ctor := true, attrs := false,
              transform := some .pre, attrTr := true, inplace := false, frozen := true } rfl
  revert this; decide

/-- In place on a frozen value nothing is edited at all (the assignment is refused). -/
theorem frozen_inplace_edits_nothing (i : In) (hip : i.inplace = true) (hfz : i.frozen = true) :
    (mutateValue i).2.edited = [] := by
  obtain ⟨o, n, r, p, c, a, t, at_, ip, fz⟩ := i
  simp only at hip hfz; subst hip; subst hfz
  cases o <;> cases n <;> cases r <;> cases c <;> cases a <;> cases at_ <;>
    rcases p with _ | (_ | _ | _ | _) <;> rcases t with _ | (_ | _ | _ | _) <;> decide

/-! ## Non-vacuity -/

/-- `with_<a>(key, tag=...)` with a preparer that looks `key` up: the registered object is copied, the copy is edited. -/
example : mutateValue { old := true, new := .val, replace := false, prepare := some .pre, ctor := true, attrs := true,
                        transform := none, attrTr := false, inplace := false, frozen := true }
    = (.ok (.obj (.fresh 0)), { allocs := 1, edited := [.fresh 0] }) := by decide

/-- The same in place on a non-frozen class edits the registered object itself (by request). -/
example : (mutateValue { old := true, new := .val, replace := false, prepare := some .pre, ctor := true, attrs := true,
                         transform := none, attrTr := false, inplace := true, frozen := false }).2.edited = [.preP] := by decide

end SpecVerif.Props.MutateValue
