import SpecVerif.Proofs.Protect
/-!
# `protect_via_deepcopy` over all kinds of value (shared by C01 and C02)

Statements about `SpecVerif.Protect.protect` (`Model/Protect.lean`), for EVERY value -- tuples, named tuples,
frozensets, sets, dicts, lists, plain objects, bytearrays, modules and uncopyable objects nested in each other to any
depth -- and every supply `n` of new identities above the identities in use:

* `protect_shares_no_mutable` (C02): no mutable object of the copy is an object of the original -- wherever it sits,
  also inside tuples / named tuples / frozensets (`protect_mutable_new`: it did not exist before at all);
* `protect_tuple_recreated`: a tuple in which a mutable object occurs is never returned as it is;
* `protect_immutable_identity`: a value in which nothing needs copying IS its own copy;
* `protect_same_content`: the copy has the content and shape of the original;
* `protect_fails_iff` (C01, "whether the call returns or raises"): the call fails iff the value holds an object that
  cannot be copied, with that object's error -- a function of the value alone;
* `protect_history_free`: outcome and content of the result do not depend on `n`, the only thing a call inherits from
  the calls before it: the function keeps no record of earlier calls, failed or not.

The model is a pure function of a finite tree, so "the original is not modified" holds by construction here; the frame
property of the copying code over a heap with identities is `Props/C01.lean: deepcopy_fresh`.  Back-references (`ref`)
are not mutable-object NODES: the statements about sharing speak about the objects that occur in the copy as nodes.
-/
namespace SpecVerif.Props.Protect
open SpecVerif.Py SpecVerif.Protect

/-- Every mutable object (list, set, dict, plain object, bytearray) that occurs in the copy -- at any depth, inside
tuples, named tuples and frozensets too -- was created by the call. -/
theorem protect_mutable_new (v v' : Val) (n : Nat) (hlt : idsLt n v = true) (h : protect v n = .ok v') :
    ∀ k ∈ mutIds v', n ≤ k := by
  unfold protect at h
  split at h
  · simp at h; subst h; simp [mutIds]
  · simp at h; subst h; simp [mutIds]
  · split at h
    · rename_i w s1 hc
      simp at h; subst h
      exact copyVal_fresh v _ w s1 hlt hc
    · simp at h

/-- C02 for the copying primitive: the copy shares no mutable object with the original. -/
theorem protect_shares_no_mutable (v v' : Val) (n : Nat) (hlt : idsLt n v = true) (h : protect v n = .ok v') :
    ∀ k ∈ mutIds v', k ∉ mutIds v := by
  intro k hk hk'
  have h1 := protect_mutable_new v v' n hlt h k hk
  have h2 := mutIds_lt v n hlt k hk'
  omega

/-- A tuple in which a mutable object occurs (at any depth) is not returned as it is. -/
theorem protect_tuple_recreated (i : Nat) (xs : Vals) (v' : Val) (n : Nat) (hlt : idsLt n (.tuple i xs) = true)
    (hmut : mutIdsL xs ≠ []) (h : protect (.tuple i xs) n = .ok v') : v'.ident ≠ some i := by
  intro hid
  unfold protect at h
  split at h
  · rename_i hv; cases hv
  · rename_i hv; cases hv
  · split at h
    · rename_i w s1 hc
      simp at h; subst h
      have hs : sameObj (.tuple i xs) w = true := by
        unfold sameObj; rw [hid]; simp [Val.ident]
      have := same_noMut (.tuple i xs) _ w s1 hlt hc hs
      simp [mutIds] at this
      exact hmut this
    · simp at h

/-- A value made of atoms, modules and plain tuples of such is returned as it is (the very same objects). -/
theorem protect_immutable_identity (v : Val) (n : Nat) (h : deepImm v = true) : protect v n = .ok v := by
  unfold protect
  split
  · rfl
  · rfl
  · rw [deepImm_copy v _ h]

/-- The copy has the content and shape of the original. -/
theorem protect_same_content (v v' : Val) (n : Nat) (h : protect v n = .ok v') : erase v' = erase v := by
  unfold protect at h
  split at h
  · simp at h; subst h; rfl
  · simp at h; subst h; rfl
  · split at h
    · rename_i w s1 hc
      simp at h; subst h
      exact copyVal_erase v _ w s1 hc
    · simp at h

/-- The call fails iff an object that cannot be copied occurs in the value, with the error of the first such object. -/
theorem protect_fails_iff (v : Val) (n : Nat) (e : Err) : protect v n = .error e ↔ firstBad v = some e := by
  have ho := copyVal_outcome v { next := n, memo := [] }
  unfold protect
  split
  · simp [firstBad]
  · simp [firstBad]
  · cases hb : firstBad v <;> simp [Outcome, hb] at ho
    · obtain ⟨w, s1, hw⟩ := ho; rw [hw]; simp
    · rw [ho]; simp

/-- The call succeeds iff no such object occurs. -/
theorem protect_ok_iff (v : Val) (n : Nat) : (∃ v', protect v n = .ok v') ↔ firstBad v = none := by
  constructor
  · rintro ⟨v', h⟩
    cases hb : firstBad v with
    | none => rfl
    | some e => rw [(protect_fails_iff v n e).2 hb] at h; cases h
  · intro hb
    cases hp : protect v n with
    | ok v' => exact ⟨v', rfl⟩
    | error e => rw [(protect_fails_iff v n e).1 hp] at hb; cases hb

/-- Nothing but the value decides the outcome and the content of the result: `n` -- the only thing a call inherits
from the calls before it, failed or not -- is irrelevant. -/
theorem protect_history_free (v : Val) (n m : Nat) :
    (protect v n).map erase = (protect v m).map erase := by
  cases hn : protect v n with
  | error e =>
    have := (protect_fails_iff v m e).2 ((protect_fails_iff v n e).1 hn)
    rw [this]
  | ok a =>
    cases hm : protect v m with
    | error e =>
      have := (protect_fails_iff v n e).2 ((protect_fails_iff v m e).1 hm)
      rw [this] at hn; cases hn
    | ok b =>
      show Except.ok (erase a) = Except.ok (erase b)
      rw [protect_same_content v a n hn, protect_same_content v b m hm]

/-! ## Non-vacuity: concrete runs of the model -/

/-- `("s", [1])`: the tuple and the list inside it are re-created. -/
example : protect (.tuple 0 (.cons (.atom (.str 0)) (.cons (.list 1 (.cons (.atom (.int 1)) .nil)) .nil))) 2
    = .ok (.tuple 3 (.cons (.atom (.str 0)) (.cons (.list 2 (.cons (.atom (.int 1)) .nil)) .nil))) := rfl

/-- `(1, (2, 3))` is its own copy. -/
example : protect (.tuple 0 (.cons (.atom (.int 1)) (.cons (.tuple 1 (.cons (.atom (.int 2)) (.cons (.atom (.int 3)) .nil))) .nil))) 2
    = .ok (.tuple 0 (.cons (.atom (.int 1)) (.cons (.tuple 1 (.cons (.atom (.int 2)) (.cons (.atom (.int 3)) .nil))) .nil))) := rfl

/-- `[lock]` cannot be copied; `[1]` can -- before and after. -/
example : protect (.list 0 (.cons (.handle 1 .lock) .nil)) 2 = .error .typeError := rfl
example : protect (.list 0 (.cons (.atom (.int 1)) .nil)) 7 = .ok (.list 7 (.cons (.atom (.int 1)) .nil)) := rfl

/-- `[t, t]` with `t = ([1],)`: the two members of the copy are one new tuple. -/
example : protect (.list 0 (.cons (.tuple 1 (.cons (.list 2 (.cons (.atom (.int 1)) .nil)) .nil)) (.cons (.ref 1) .nil))) 3
    = .ok (.list 3 (.cons (.tuple 5 (.cons (.list 4 (.cons (.atom (.int 1)) .nil)) .nil)) (.cons (.ref 5) .nil))) := rfl

example : idsLt 2 (.tuple 0 (.cons (.atom (.str 0)) (.cons (.list 1 (.cons (.atom (.int 1)) .nil)) .nil))) = true := rfl

end SpecVerif.Props.Protect
