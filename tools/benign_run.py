#!/usr/bin/env python3
"""Run every claimed check against a behaviour-preserving refactoring (benign/<id>/patch.diff) to measure false alarms.
usage: benign_run.py <id>...   (applies the patch to /repo under the exclusive repo lock, runs all claimed checks in
parallel, reverts, records benign/<id>/meta.json)"""
import fcntl, json, os, subprocess, sys
from concurrent.futures import ThreadPoolExecutor
V = os.path.dirname(os.path.dirname(os.path.abspath(__file__)))
claimed = json.load(open(os.path.join(V, "tools", "claimed.json")))
lock = open("/tmp/verif-repo.lock", "a+"); fcntl.flock(lock, fcntl.LOCK_EX); os.environ["VERIF_REPO_LOCK_HELD"] = "1"
os.environ["VERIF_EVIDENCE_DIR"] = "/tmp/verif-seed-evidence"
os.environ["VERIF_REPLAY_DIR"] = "/tmp/verif-seed-replays"
os.makedirs("/tmp/verif-seed-evidence", exist_ok=True); os.makedirs("/tmp/verif-seed-replays", exist_ok=True)
def one(pid):
    c = subprocess.run(["./check", pid, "--tier", "quick"], cwd=V, capture_output=True, text=True, timeout=3600)
    lines = [l for l in c.stdout.splitlines() if l.startswith(("VIOLATION", pid + " tier"))]
    return pid, {"rc": c.returncode, "output": lines[-2:]}
for bid in sys.argv[1:]:
    d = os.path.join(V, "benign", bid)
    st = subprocess.run(["git", "-C", "/repo", "status", "--porcelain", "--untracked-files=no"], capture_output=True, text=True).stdout
    assert not st.strip(), "/repo dirty"
    r = subprocess.run(["git", "-C", "/repo", "apply", "--whitespace=nowarn", os.path.join(d, "patch.diff")], capture_output=True, text=True)
    if r.returncode != 0:
        print(bid, "patch does not apply:", r.stderr.strip()[:200]); continue
    try:
        t = subprocess.run(["/venv/bin/python", "-m", "pytest", "-q", "-p", "no:cacheprovider", "-x"], cwd="/repo", capture_output=True, text=True)
        with ThreadPoolExecutor(8) as ex:
            res = dict(ex.map(one, claimed))
    finally:
        subprocess.run(["git", "-C", "/repo", "checkout", "--", "."], check=True)
    alarms = {p: v for p, v in res.items() if v["rc"] != 0}
    json.dump({"id": bid, "tests": t.stdout.strip().splitlines()[-1:], "checks": res, "alarms": sorted(alarms)}, open(os.path.join(d, "meta.json"), "w"), indent=1)
    print(bid, "alarms:", {p: (v["output"][-1][-90:] if v["output"] else v["rc"]) for p, v in alarms.items()} or "none")
