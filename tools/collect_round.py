#!/usr/bin/env python3
"""Collect a round of independently written seeded changes: for every <root>/<Cxx>/out/s<i>/ not yet filed, confirm it
(tools/seed_confirm.py: patch applies to /repo HEAD in a scratch worktree, 152 tests pass with it, demo fails with it and
passes without) and file it as seeded/<Cxx>-<round>s<i>/.   usage: collect_round.py /tmp/r3 r3"""
import os, subprocess, sys
V = os.path.dirname(os.path.dirname(os.path.abspath(__file__)))
root, rnd = sys.argv[1], sys.argv[2]
for pid in sorted(os.listdir(root)):
    for i in (1, 2, 3):
        src = os.path.join(root, pid, "out", f"s{i}")
        sid = f"{pid}-{rnd}s{i}"
        if not os.path.exists(os.path.join(src, "patch.diff")) or os.path.exists(os.path.join(V, "seeded", sid)):
            continue
        r = subprocess.run([sys.executable, os.path.join(V, "tools", "seed_confirm.py"), src, pid, sid], capture_output=True, text=True)
        print(sid, "confirmed" if r.returncode == 0 else "NOT CONFIRMED\n" + r.stdout[-800:] + r.stderr[-400:], flush=True)
