#!/venv/bin/python
"""Which lines of /repo/spec_classes does no check execute?  usage: coverage_report.py <dir written with VERIF_COVERAGE> [--per-check]
Run first:  VERIF_COVERAGE=/tmp/verif-cov VERIF_EVIDENCE_DIR=/tmp/verif-cov/ev VERIF_REPLAY_DIR=/tmp/verif-cov/rp tools/run_all.sh quick"""
import ast, glob, json, os, sys
REPO = os.environ.get("VERIF_REPO", "/repo")
d = sys.argv[1]
cov = {}
per = {}
for f in glob.glob(os.path.join(d, "C*.json")):
    pid = os.path.basename(f)[:-5]
    for fn, ln in json.load(open(f)):
        cov.setdefault(fn, set()).add(ln)
        per.setdefault(fn, {}).setdefault(ln, set()).add(pid)
def executable_lines(path):
    src = open(path).read()
    code = compile(src, path, "exec")
    lines = set()
    def walk(c):
        for _s, _e, ln in c.co_lines():
            if ln is not None:
                lines.add(ln)
        for k in c.co_consts:
            if hasattr(k, "co_lines"):
                walk(k)
    walk(code)
    # drop docstring-only / def / class header lines that are executed at import anyway? keep all; report uncovered only
    return lines, src.splitlines()
tot = unc = 0
for root, _, files in os.walk(os.path.join(REPO, "spec_classes")):
    for name in sorted(files):
        if not name.endswith(".py") or name == "_version.py":
            continue
        path = os.path.join(root, name)
        rel = os.path.relpath(path, REPO)
        ex, src = executable_lines(path)
        miss = sorted(ex - cov.get(rel, set()))
        tot += len(ex); unc += len(miss)
        if miss:
            print(f"\n== {rel}: {len(miss)} of {len(ex)} executable lines never executed by any check")
            for ln in miss:
                print(f"   {ln:4d}: {src[ln-1].rstrip()[:150]}")
print(f"\nTOTAL: {unc} of {tot} executable lines uncovered ({100.0*(tot-unc)/tot:.1f}% covered)")
