#!/usr/bin/env python3
"""Regenerate the generated tables of DESIGN.md (between <!-- BEGIN:name --> / <!-- END:name --> markers):
fixed (known_findings fixed entries), open (open findings), status (per-property as-built summary from evidence),
seeded (independent seeded changes vs checks), benign (behaviour-preserving refactorings vs checks)."""
import glob, json, os, re, subprocess
V = os.path.dirname(os.path.dirname(os.path.abspath(__file__)))
kf = json.load(open(os.path.join(V, "known_findings.json")))["findings"]
def esc(s): return str(s).replace("|", "\\|").replace("\n", " ")
def t_fixed():
    rows = ["| property | fix commit in /repo | what failed before |", "|---|---|---|"]
    order = subprocess.run(["git", "-C", "/repo", "log", "--reverse", "--format=%h"], capture_output=True, text=True).stdout.split()
    fx = [f for f in kf if f["status"] == "fixed"]
    fx.sort(key=lambda f: (order.index(f["commit"]) if f["commit"] in order else 999, f["property"]))
    for f in fx: rows.append(f"| {f['property']} | {f['commit']} | {esc(f['what'])} |")
    return "\n".join(rows)
def t_open():
    rows = ["| id | property | what fails (witness in known_findings.json) | why not repaired |", "|---|---|---|---|"]
    for f in kf:
        if f["status"] == "open": rows.append(f"| {f['id']} | {f['property']} | {esc(f['what'])} | {esc(f.get('why_not_fixed',''))} |")
    return "\n".join(rows)
def t_status():
    rows = ["| id | theorems (all discharged, axioms ⊆ propext/Classical.choice/Quot.sound) | quick tier: cases / protocol lines compared / distinct non-trivial | open findings | build note |", "|---|---|---|---|---|"]
    for f in sorted(glob.glob(os.path.join(V, "evidence", "C*.json"))):
        e = json.load(open(f)); c = e["coverage"]; pid = e["property_id"]
        opens = ", ".join(k["id"] for k in kf if k["status"] == "open" and k["property"] == pid) or "–"
        rows.append(f"| {pid} | {c.get('obligations')} | {c.get('evaluations')} / {c.get('protocol_lines_compared')} / {c.get('distinct_nontrivial')} ({e['tier']}, seed {e['seed']}, {e['wall_s']} s) | {opens} | docs/{pid}.md |")
    return "\n".join(rows)
def t_seeded():
    rows = ["| seeded change | breaks | what (first line of the author's notes) | checks run against it |", "|---|---|---|---|"]
    for f in sorted(glob.glob(os.path.join(V, "seeded", "*", "meta.json"))):
        m = json.load(open(f))
        first = [l.strip("# ").strip() for l in (m.get("needs_to_manifest") or "").splitlines() if l.strip()]
        title = (first[0] if first else "")[:140]
        res = "; ".join(f"{p}: {'caught' if c.get('caught') else 'MISSED (rc %s)' % c.get('rc')}" + (" (no-failing-input-found)" if any('no-failing-input-found' in o for o in c.get('output', [])) else "") for p, c in sorted(m.get("checks", {}).items())) or "not run"
        rows.append(f"| {m['id']} | {m['property']} | {esc(title)} | {res} |")
    return "\n".join(rows)
def t_benign():
    rows = ["| refactoring | what | alarms (of the checks claimed at the time) |", "|---|---|---|"]
    for d in sorted(glob.glob(os.path.join(V, "benign", "*"))):
        mp = os.path.join(d, "meta.json")
        notes = open(os.path.join(d, "notes.md")).read().strip().splitlines() if os.path.exists(os.path.join(d, "notes.md")) else [""]
        title = next((l.strip("# ").strip() for l in notes if l.strip()), "")[:150]
        if os.path.exists(mp):
            m = json.load(open(mp)); al = ", ".join(m["alarms"]) or "none"
        else: al = "not run"
        rows.append(f"| {os.path.basename(d)} | {esc(title)} | {al} |")
    return "\n".join(rows)
gen = {"fixed": t_fixed, "open": t_open, "status": t_status, "seeded": t_seeded, "benign": t_benign}
p = os.path.join(V, "DESIGN.md"); s = open(p).read()
for name, fn in gen.items():
    pat = re.compile(rf"(<!-- BEGIN:{name} -->\n).*?(<!-- END:{name} -->)", re.S)
    if pat.search(s): s = pat.sub(lambda m: m.group(1) + fn() + "\n" + m.group(2), s)
open(p, "w").write(s)
print("ok")
