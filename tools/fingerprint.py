#!/venv/bin/python
"""Record the fingerprint (AST hash per library file) of /repo's current tree in harness/fingerprint.json.
Run after every `fix:` commit, once the checks have been re-validated against the new tree."""
import json, os, subprocess, sys
V = os.path.dirname(os.path.dirname(os.path.abspath(__file__)))
sys.path.insert(0, os.path.join(V, "harness"))
import common
head = subprocess.run(["git", "-C", str(common.REPO), "rev-parse", "--short", "HEAD"], capture_output=True, text=True).stdout.strip()
dirty = subprocess.run(["git", "-C", str(common.REPO), "status", "--porcelain", "--untracked-files=no"], capture_output=True, text=True).stdout.strip()
assert not dirty, "/repo has uncommitted changes"
json.dump({"repo_commit": head, "python": sys.version.split()[0], "files": common.fingerprint_all()}, open(common.FINGERPRINT, "w"), indent=1)
print("fingerprint of", head, "written")
