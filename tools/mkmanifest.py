#!/usr/bin/env python3
"""Regenerate /verif/MANIFEST.json from the MANIFEST_ENTRY of every harness/corr_Cxx.py."""
import importlib, json, sys
from pathlib import Path

V = Path(__file__).resolve().parent.parent
sys.path.insert(0, str(V / "harness"))
props = [json.loads(l) for l in (V / "properties.jsonl").read_text().splitlines() if l.strip()]
checks, na = [], []
pending = json.loads((V / "tools" / "pending.json").read_text()) if (V / "tools" / "pending.json").exists() else {}
for p in props:
    pid = p["id"]
    f = V / "harness" / f"corr_{pid}.py"
    entry = None
    if f.exists():
        src = f.read_text()
        if "MANIFEST_ENTRY" in src:
            ns = {}
            # evaluate only the MANIFEST_ENTRY literal (the module itself needs spec_classes)
            import ast
            tree = ast.parse(src)
            for node in tree.body:
                if isinstance(node, ast.Assign) and any(getattr(t, "id", None) == "MANIFEST_ENTRY" for t in node.targets):
                    entry = ast.literal_eval(node.value)
    claimed = json.loads((V / "tools" / "claimed.json").read_text())
    if entry and not entry.get("disabled") and pid in claimed:
        checks.append({
            "property_id": pid,
            "quick_cmd": f"./check {pid} --tier quick",
            "thorough_cmd": f"./check {pid} --tier thorough",
            "evidence_file": f"/verif/evidence/{pid}.json",
            "replay_cmd_template": f"./check {pid} --replay {{path}}",
            "engine": "lean4-proof+correspondence",
            "level_claimed": {"category": "proof", "text": entry["level_text"], "design_ref": entry.get("design_ref", f"DESIGN.md section 7 ({pid})")},
            "level_note": entry["level_note"],
            "technique": entry.get("technique", "Lean 4 theorems about a hand-written Impl model + per-run Python/Lean correspondence check"),
        })
    else:
        na.append({"property_id": pid, "reason": pending.get(pid, "check not built yet in this round (machinery under construction; see DESIGN.md section 9); not a claim that the technique cannot apply")})
manifest = {
    "version": 1,
    "setup_cmd": "cd lean && lake build",
    "hooks": {
        "guard": "SPEC_CLASSES_VERIF",
        "enable": "no hooks are compiled into /repo: identities, faults and schedules are observed from outside (id(), sys.settrace, threading); the checks import spec_classes from /repo's working tree as it is",
        "baseline_off_cmd": "cd /repo && /venv/bin/python -m pytest -ra -q -p no:cacheprovider --timeout=900 --continue-on-collection-errors",
        "source_commits": [],
        "add_only": True,
    },
    "engines": [{
        "name": "lean4-proof+correspondence",
        "path": "/verif/check",
        "serves_properties": [c["property_id"] for c in checks],
        "kind_free_text": "Lean 4 (core + single Mathlib modules in proof files) theorems about hand-written executable Impl models; tie to /repo by a per-run differential correspondence (real spec_classes vs `lake env lean --run Drivers/Cxx.lean`) and an independent Python oracle for the failing-input search",
    }],
    "checks": checks,
    "notes": "Genuine defects found in the pinned tree were repaired by fix: commits in /repo (see known_findings.json, status=fixed) or are listed there as open findings. Every check exits 2 (not 1) on infrastructure failure.",
    "not_applicable": na,
}
(V / "MANIFEST.json").write_text(json.dumps(manifest, indent=1) + "\n")
print(f"{len(checks)} checks, {len(na)} not yet claimed")
