#!/bin/sh
# run every property check (quick tier) in parallel; prints one summary line per property
HERE="$(cd "$(dirname "$0")/.." && pwd)"; cd "$HERE"
TIER="${1:-quick}"
for p in C01 C02 C03 C04 C05 C06 C07 C08 C09 C10 C11 C12 C13 C14 C15 C16 C17 C18 C19 C20; do echo $p; done | xargs -P 8 -I{} sh -c "./check {} --tier $TIER > /tmp/verif_run_{}.log 2>&1; echo \"{} rc=\$? \$(grep -E '^(VIOLATION|{} tier)' /tmp/verif_run_{}.log | tail -1 | cut -c1-200)\"" | sort
