#!/usr/bin/env python3
"""Confirm a seeded change in a scratch worktree of /repo HEAD and file it under /verif/seeded/<id>/.

usage: seed_confirm.py <dir with patch.diff demo.py notes.md> <property id> <seed id>
Checks: patch applies; the unedited 152-test suite passes with it; demo.py fails with it and passes without.
"""
import json, os, shutil, subprocess, sys, tempfile
src, pid, sid = sys.argv[1], sys.argv[2], sys.argv[3]
V = os.path.dirname(os.path.dirname(os.path.abspath(__file__)))
wt = tempfile.mkdtemp(prefix="confirm_", dir="/tmp")
os.rmdir(wt)
def run(cmd, cwd=None, **kw):
    return subprocess.run(cmd, cwd=cwd, capture_output=True, text=True, **kw)
res = {"property": pid, "id": sid}
try:
    r = run(["git", "-C", "/repo", "worktree", "add", "--detach", wt, "HEAD", "-q"]); assert r.returncode == 0, r.stderr
    res["repo_head"] = run(["git", "-C", "/repo", "rev-parse", "--short", "HEAD"]).stdout.strip()
    shutil.copy("/repo/spec_classes/_version.py", os.path.join(wt, "spec_classes", "_version.py"))  # gitignored, build-generated
    # demos may assert that spec_classes is imported from their author's worktree (<root>/out/s<i>/demo.py): point that at ours
    author_root = os.path.dirname(os.path.dirname(os.path.abspath(src)))
    os.makedirs(os.path.join(wt, "out", "s1"))  # the layout the authors ran their demo in: <root>/out/s<i>/demo.py, cwd = <root>
    DEMO = os.path.join("out", "s1", "demo.py")
    open(os.path.join(wt, DEMO), "w").write(open(os.path.join(src, "demo.py")).read().replace(author_root, wt))
    r0 = run(["/venv/bin/python", DEMO], cwd=wt, timeout=600)
    res["demo_without_patch_rc"] = r0.returncode
    r = run(["git", "apply", "--whitespace=nowarn", os.path.join(src, "patch.diff")], cwd=wt)
    if r.returncode != 0:
        r = run(["git", "apply", "-3", "--whitespace=nowarn", os.path.join(src, "patch.diff")], cwd=wt)
    res["patch_applies"] = r.returncode == 0
    if r.returncode == 0:
        t = run(["/venv/bin/python", "-m", "pytest", "-q", "-p", "no:cacheprovider", "-x", "--timeout=900", "--ignore=out"], cwd=wt, timeout=1200)
        res["tests_with_patch"] = t.stdout.strip().splitlines()[-1] if t.stdout.strip() else t.stderr[-200:]
        res["tests_pass_with_patch"] = t.returncode == 0
        r1 = run(["/venv/bin/python", DEMO], cwd=wt, timeout=600)
        res["demo_with_patch_rc"] = r1.returncode
        res["demo_with_patch_tail"] = (r1.stdout + r1.stderr)[-600:]
        # regenerate the patch against current HEAD so that it applies cleanly to /repo
        res["patch_vs_head"] = run(["git", "diff", "HEAD", "--", "spec_classes"], cwd=wt).stdout  # vs HEAD: a 3-way apply stages its result
    res["confirmed"] = bool(res.get("patch_applies") and res.get("tests_pass_with_patch") and res.get("demo_with_patch_rc") not in (0, None) and res.get("demo_without_patch_rc") == 0)
finally:
    run(["git", "-C", "/repo", "worktree", "remove", "--force", wt])
    shutil.rmtree(wt, ignore_errors=True)
print(json.dumps({k: v for k, v in res.items() if k != "patch_vs_head"}, indent=1))
if res.get("confirmed"):
    d = os.path.join(V, "seeded", sid)
    os.makedirs(d, exist_ok=True)
    open(os.path.join(d, "patch.diff"), "w").write(res["patch_vs_head"])
    shutil.copy(os.path.join(src, "demo.py"), os.path.join(d, "demo.py"))
    notes = open(os.path.join(src, "notes.md")).read() if os.path.exists(os.path.join(src, "notes.md")) else ""
    open(os.path.join(d, "notes.md"), "w").write(notes)
    meta = {"property": pid, "id": sid, "breaks": pid, "needs_to_manifest": notes[:1500],
            "confirmed_on_repo_head": res["repo_head"],
            "what_was_run": ["git worktree add --detach <scratch> HEAD", "python demo.py (rc 0 without patch)", "git apply patch.diff",
                             f"pytest -q -p no:cacheprovider -x -> {res['tests_with_patch']}", f"python demo.py -> rc {res['demo_with_patch_rc']}", "git worktree remove --force <scratch>"],
            "checks": {}}
    json.dump(meta, open(os.path.join(d, "meta.json"), "w"), indent=1)
sys.exit(0 if res.get("confirmed") else 1)
