#!/usr/bin/env python3
"""Re-base a filed seeded change onto /repo HEAD after a `fix:` commit touched the same lines:
3-way apply in a scratch worktree, check that the 152 tests still pass with it and the demo still fails with it / passes
without, rewrite seeded/<id>/patch.diff.   usage: seed_rebase.py <seed id>..."""
import json, os, shutil, subprocess, sys, tempfile
V = os.path.dirname(os.path.dirname(os.path.abspath(__file__)))
def run(cmd, cwd=None, **kw):
    return subprocess.run(cmd, cwd=cwd, capture_output=True, text=True, **kw)
for sid in sys.argv[1:]:
    d = os.path.join(V, "seeded", sid)
    wt = tempfile.mkdtemp(prefix="rebase_", dir="/tmp"); os.rmdir(wt)
    try:
        meta = json.load(open(os.path.join(d, "meta.json")))
        base = meta.get("confirmed_on_repo_head")
        assert run(["git", "-C", "/repo", "worktree", "add", "--detach", wt, base, "-q"]).returncode == 0
        shutil.copy("/repo/spec_classes/_version.py", os.path.join(wt, "spec_classes", "_version.py"))
        assert run(["git", "apply", "--whitespace=nowarn", os.path.join(d, "patch.diff")], cwd=wt).returncode == 0
        run(["git", "-c", "user.name=x", "-c", "user.email=x@x", "commit", "-qam", "seed"], cwd=wt)
        head = run(["git", "-C", "/repo", "rev-parse", "--short", "HEAD"]).stdout.strip()
        r = run(["git", "-c", "user.name=x", "-c", "user.email=x@x", "rebase", "--onto", head, "HEAD~1"], cwd=wt)
        if r.returncode != 0:
            print(sid, "CONFLICT - rebase by hand:\n", run(["git", "diff"], cwd=wt).stdout[:3000]); run(["git", "rebase", "--abort"], cwd=wt); continue
        patch = run(["git", "diff", head, "HEAD", "--", "spec_classes"], cwd=wt).stdout
        os.makedirs(os.path.join(wt, "out", "s1"))
        shutil.copy(os.path.join(d, "demo.py"), os.path.join(wt, "out", "s1", "demo.py"))
        t = run(["/venv/bin/python", "-m", "pytest", "-q", "-p", "no:cacheprovider", "-x", "--ignore=out"], cwd=wt)
        r1 = run(["/venv/bin/python", "out/s1/demo.py"], cwd=wt, timeout=600)
        run(["git", "checkout", "-q", head, "--", "spec_classes"], cwd=wt)
        r0 = run(["/venv/bin/python", "out/s1/demo.py"], cwd=wt, timeout=600)
        ok = t.returncode == 0 and r1.returncode != 0 and r0.returncode == 0
        print(sid, "rebased onto", head, "tests:", t.stdout.strip().splitlines()[-1:], "demo with:", r1.returncode, "without:", r0.returncode, "->", "OK" if ok else "NOT CONFIRMED")
        if ok:
            open(os.path.join(d, "patch.diff"), "w").write(patch)
            meta["confirmed_on_repo_head"] = head
            meta.setdefault("what_was_run", []).append(f"re-based onto {head} (git rebase in a scratch worktree; tests pass, demo fails with / passes without)")
            json.dump(meta, open(os.path.join(d, "meta.json"), "w"), indent=1)
    finally:
        run(["git", "-C", "/repo", "worktree", "remove", "--force", wt]); shutil.rmtree(wt, ignore_errors=True)
        run(["git", "-C", "/repo", "worktree", "prune"])
