#!/usr/bin/env python3
"""Run /verif checks against a seeded change: apply seeded/<id>/patch.diff to /repo, run ./check for the
given properties (default: the one it breaks), undo straight afterwards, record the outcome in meta.json.

usage: seed_run.py <seed id> [property ids...]"""
import json, os, subprocess, sys
V = os.path.dirname(os.path.dirname(os.path.abspath(__file__)))
sid = sys.argv[1]
d = os.path.join(V, "seeded", sid)
meta = json.load(open(os.path.join(d, "meta.json")))
pids = sys.argv[2:] or [meta["property"]]
import fcntl
_lock = open("/tmp/verif-repo.lock", "a+")
fcntl.flock(_lock, fcntl.LOCK_EX)   # nobody else checks or patches /repo while the patch is applied
os.environ["VERIF_REPO_LOCK_HELD"] = "1"
os.environ["VERIF_EVIDENCE_DIR"] = "/tmp/verif-seed-evidence"
os.environ["VERIF_REPLAY_DIR"] = "/tmp/verif-seed-replays"
os.makedirs("/tmp/verif-seed-evidence", exist_ok=True); os.makedirs("/tmp/verif-seed-replays", exist_ok=True)
st = subprocess.run(["git", "-C", "/repo", "status", "--porcelain", "--untracked-files=no"], capture_output=True, text=True).stdout
assert not st.strip(), "/repo has uncommitted changes"
r = subprocess.run(["git", "-C", "/repo", "apply", "--whitespace=nowarn", os.path.join(d, "patch.diff")], capture_output=True, text=True)
assert r.returncode == 0, r.stderr
try:
    for pid in pids:
        c = subprocess.run(["./check", pid, "--tier", "quick"], cwd=V, capture_output=True, text=True, timeout=3600)
        lines = [l for l in c.stdout.splitlines() if l.startswith(("VIOLATION", "KNOWN-FINDING", pid + " tier"))]
        meta["checks"][pid] = {"rc": c.returncode, "output": lines[-3:], "caught": c.returncode == 1}
        print(sid, pid, "rc", c.returncode, lines[-1] if lines else c.stderr[-300:])
finally:
    subprocess.run(["git", "-C", "/repo", "checkout", "--", "."], check=True)
json.dump(meta, open(os.path.join(d, "meta.json"), "w"), indent=1)
