#!/usr/bin/env python3
"""Print the markdown table of DESIGN.md section 11.5 from seeded/*/meta.json."""
import json, glob, os
V = os.path.dirname(os.path.dirname(os.path.abspath(__file__)))
rows = []
for f in sorted(glob.glob(os.path.join(V, "seeded", "*", "meta.json"))):
    m = json.load(open(f))
    first = (m.get("needs_to_manifest") or "").strip().splitlines()
    title = next((l.strip("# ").strip() for l in first if l.strip()), "")[:110]
    checks = m.get("checks", {})
    res = "; ".join(f"{p}: {'caught' if c.get('caught') else 'MISSED (rc %s)' % c.get('rc')}" + (" [no-failing-input-found]" if any('no-failing-input-found' in o for o in c.get('output', [])) else "") for p, c in sorted(checks.items())) or "not run yet"
    rows.append(f"| {m['id']} | {m['property']} | {title} | {res} |")
print("| seeded change | breaks | what (first line of the author's notes) | checks run against it |\n|---|---|---|---|")
print("\n".join(rows))
