#!/bin/sh
# soak: every check with the escalation phase forced (search generator for VERIF_ESCALATION_S seconds) on the unchanged tree;
# evidence/replays diverted. usage: tools/soak.sh [seconds] [seed] [pids...]
HERE="$(cd "$(dirname "$0")/.." && pwd)"; cd "$HERE"
S="${1:-150}"; SEED="${2:-0}"; shift 2 2>/dev/null
PIDS="${*:-C01 C02 C03 C04 C05 C06 C07 C08 C09 C10 C11 C12 C13 C14 C15 C16 C17 C18 C19 C20}"
mkdir -p /tmp/verif-soak
for p in $PIDS; do echo $p; done | xargs -P 7 -I{} sh -c "VERIF_FORCE_ESCALATION=1 VERIF_ESCALATION_S=$S VERIF_EVIDENCE_DIR=/tmp/verif-soak/ev VERIF_REPLAY_DIR=/tmp/verif-soak/rp ./check {} --tier quick --seed $SEED > /tmp/verif-soak/{}.log 2>&1; echo \"{} rc=\$? \$(grep -E '^(VIOLATION|{} tier|INFRA)' /tmp/verif-soak/{}.log | tail -1 | cut -c1-220)\"" | sort
