#!/usr/bin/env python3
"""Bulk sweep: run checks against many seeded / benign changes in parallel, each in its own scratch copy of /repo
(rsync without .git + `git apply`), selected by VERIF_REPO; evidence and replays are diverted, /repo is never touched.

usage: sweep.py seeds [ids...]      every seeded/<id> against the check of the property it breaks (+ extra pids in meta["also"])
       sweep.py benign [ids...]     every benign/<id> against every claimed check
       options: -j N (parallel copies, default 4)

Results go into seeded/<id>/meta.json ("checks") and benign/<id>/meta.json. (tools/seed_run.py does the same for one
change by patching /repo itself, as the task brief describes; both give the same verdicts.)"""
import json, os, shutil, subprocess, sys, tempfile
from concurrent.futures import ThreadPoolExecutor

V = os.path.dirname(os.path.dirname(os.path.abspath(__file__)))
args = sys.argv[1:]
J = 4
if "-j" in args:
    i = args.index("-j"); J = int(args[i + 1]); del args[i:i + 2]
if not args or args[0] not in ("seeds", "benign"):
    print(__doc__)
    sys.exit(0 if args and args[0] in ("-h", "--help") else 2)
mode, ids = args[0], args[1:]
claimed = json.load(open(os.path.join(V, "tools", "claimed.json")))
ROOT = "/tmp/verif-sweep"
os.makedirs(ROOT, exist_ok=True)


def scratch(kind, cid):
    d = os.path.join(ROOT, f"{kind}-{cid}")
    shutil.rmtree(d, ignore_errors=True)
    subprocess.run(["rsync", "-a", "--exclude", ".git", "--exclude", "__pycache__", "/repo/", d + "/"], check=True)
    r = subprocess.run(["git", "apply", "--whitespace=nowarn", os.path.join(V, kind, cid, "patch.diff")], cwd=d, capture_output=True, text=True)
    return d, r


def check(pid, repo, tag):
    env = dict(os.environ, VERIF_REPO=repo, VERIF_REPO_LOCK_HELD="1", VERIF_EVIDENCE_DIR=os.path.join(ROOT, "ev-" + tag), VERIF_REPLAY_DIR=os.path.join(ROOT, "rp-" + tag))
    os.makedirs(env["VERIF_EVIDENCE_DIR"], exist_ok=True); os.makedirs(env["VERIF_REPLAY_DIR"], exist_ok=True)
    try:
        c = subprocess.run(["./check", pid, "--tier", "quick"], cwd=V, capture_output=True, text=True, timeout=3600, env=env)
        rc, out, err = c.returncode, c.stdout, c.stderr
    except subprocess.TimeoutExpired:
        rc, out, err = 2, "", "timeout"
    lines = [l for l in out.splitlines() if l.startswith(("VIOLATION", "KNOWN-FINDING", pid + " tier", "INFRA"))]
    return {"rc": rc, "output": [l[:300] for l in lines[-3:]] or [err[-300:]], "caught": rc == 1}


def one_seed(sid):
    d = os.path.join(V, "seeded", sid)
    meta = json.load(open(os.path.join(d, "meta.json")))
    repo, r = scratch("seeded", sid)
    try:
        if r.returncode != 0:
            print(sid, "PATCH DOES NOT APPLY:", r.stderr.strip()[:200], flush=True)
            return
        pids = [meta["property"]] + [p for p in meta.get("also", []) if p != meta["property"]]
        for pid in pids:
            res = check(pid, repo, sid)
            meta.setdefault("checks", {})[pid] = res
            print(sid, pid, "rc", res["rc"], res["output"][-1][:160], flush=True)
        json.dump(meta, open(os.path.join(d, "meta.json"), "w"), indent=1)
    finally:
        shutil.rmtree(repo, ignore_errors=True)
        shutil.rmtree(os.path.join(ROOT, "ev-" + sid), ignore_errors=True); shutil.rmtree(os.path.join(ROOT, "rp-" + sid), ignore_errors=True)


def one_benign(bid):
    d = os.path.join(V, "benign", bid)
    repo, r = scratch("benign", bid)
    try:
        if r.returncode != 0:
            print(bid, "PATCH DOES NOT APPLY:", r.stderr.strip()[:200], flush=True)
            json.dump({"id": bid, "applies": False, "detail": r.stderr.strip()[:300]}, open(os.path.join(d, "meta.json"), "w"), indent=1)
            return
        t = subprocess.run(["/venv/bin/python", "-m", "pytest", "-q", "-p", "no:cacheprovider", "-x"], cwd=repo, capture_output=True, text=True)
        res = {pid: check(pid, repo, bid) for pid in claimed}
        alarms = sorted(p for p, v in res.items() if v["rc"] != 0)
        json.dump({"id": bid, "applies": True, "tests": t.stdout.strip().splitlines()[-1:], "checks": res, "alarms": alarms}, open(os.path.join(d, "meta.json"), "w"), indent=1)
        print(bid, "tests:", t.stdout.strip().splitlines()[-1:], "alarms:", {p: res[p]["output"][-1][-120:] for p in alarms} or "none", flush=True)
    finally:
        shutil.rmtree(repo, ignore_errors=True)
        shutil.rmtree(os.path.join(ROOT, "ev-" + bid), ignore_errors=True); shutil.rmtree(os.path.join(ROOT, "rp-" + bid), ignore_errors=True)


kind = "seeded" if mode == "seeds" else "benign"
if not ids:
    ids = sorted(x for x in os.listdir(os.path.join(V, kind)) if os.path.exists(os.path.join(V, kind, x, "patch.diff")))
with ThreadPoolExecutor(J) as ex:
    list(ex.map(one_seed if mode == "seeds" else one_benign, ids))
